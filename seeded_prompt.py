#!/usr/bin/env python3
import json, sys
pid, wt = sys.argv[1], sys.argv[2]
p = next(json.loads(l) for l in open('/verif/properties.jsonl') if json.loads(l)['id'] == pid)
print(f"""You are working in a scratch git worktree of the Rust repository bmwill/anemo (a peer-to-peer RPC networking library over QUIC/quinn with mTLS peer identity, connection management, custom framing and tower middleware) at {wt}. Work ONLY inside {wt}; never touch /repo or /verif or any other directory. There is no network: always pass --offline to cargo (CARGO_NET_OFFLINE=true). Use a private build directory: export CARGO_TARGET_DIR={wt}/target.

The library currently satisfies this semantic property:

  Title: {p['title']}
  Statement: {p['statement']}
  It must hold: {p['quantifier']['text']}

Your task: make ONE small, realistic change to the library source (files under crates/*/src, the kind of slip a maintainer could plausibly introduce in a refactor or an "optimisation") that BREAKS this property, such that
  1. the workspace still compiles (cargo build --workspace --offline),
  2. the existing test suite still passes unchanged (cargo nextest run --workspace --offline --test-threads 8, or cargo test --workspace --offline), and
  3. the breakage needs something specific to manifest: a particular interleaving or timing, a fault (loss, close, cancellation, crash) at a particular point, a multi-step sequence of operations, an unusual input or configuration, or two cooperating code sites that each look fine alone. It must NOT be something that ordinary use or a trivial smoke test exposes at once.
Do not modify crates/anemo/src/verif.rs nor any code guarded by #[cfg(bmwill_anemo_verif)], and do not modify existing tests.

Then write a DEMONSTRATION: a new test (e.g. a new file crates/anemo/tests/seeded_demo.rs or a new #[tokio::test] in a new module file, or a small example program) that FAILS with your change applied and PASSES on the original code. Run it both ways and record the commands and outcomes.

Deliver, in {wt}/SEEDED/:
  - patch.diff : `git diff` of ONLY the library change (not the demonstration), relative to HEAD, applicable with `git apply` from the repository root;
  - demo/ : the demonstration file(s) plus demo/README.md saying where to put them and which command to run;
  - meta.json : {{"property": "{pid}", "summary": "...what the change does...", "breaks": "...which clause of the property...", "needs_to_manifest": "...the specific interleaving/fault/sequence/input...", "commands_run": [...], "tests_pass_with_change": true/false, "demo_fails_with_change": true/false, "demo_passes_without_change": true/false}}
Do not commit anything. When done, restore the working tree to HEAD for the library files (git checkout -- crates) but leave SEEDED/ in place, and remove {wt}/target to free disk space. Reply with a 5-line summary.""")
