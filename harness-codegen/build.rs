//! Generates a seeded batch of service definitions, runs anemo-build on them and emits trait
//! impls plus a driver that calls every generated client method.
use std::fmt::Write as _;

struct Rng(u64);
impl Rng {
    fn next(&mut self) -> u64 {
        self.0 ^= self.0 << 13;
        self.0 ^= self.0 >> 7;
        self.0 ^= self.0 << 17;
        self.0
    }
    fn below(&mut self, n: usize) -> usize {
        (self.next() % n as u64) as usize
    }
    fn pick<'a>(&mut self, v: &[&'a str]) -> &'a str {
        v[self.below(v.len())]
    }
}

const SERVICE_NAMES: [&str; 10] = ["Greeter", "Greet", "GreeterV2", "greeter", "ABCService", "X", "Store", "StoreAdmin", "Kv", "Echo2"];
const PACKAGES: [&str; 6] = ["", "pkg", "example.helloworld", "a.b.c.d", "pkg2", "a.b"];
const METHODS: [(&str, &str); 10] = [
    ("say_hello", "SayHello"),
    ("get", "Get"),
    ("get_all", "GetAll"),
    ("put", "put"),
    ("delete_item", "DeleteItem"),
    ("x", "X"),
    ("ping", "Ping"),
    ("ping2", "Ping2"),
    ("stream_like", "stream_like"),
    ("r#type_", "Type"),
];

fn main() {
    println!("cargo:rerun-if-env-changed=VERIF_SEED");
    println!("cargo:rerun-if-env-changed=VERIF_CODEGEN_BATCH");
    println!("cargo:rerun-if-changed=build.rs");
    let seed: u64 = std::env::var("VERIF_SEED").ok().and_then(|s| s.parse::<i64>().ok()).map(|s| s as u64).unwrap_or(1);
    let batch: u64 = std::env::var("VERIF_CODEGEN_BATCH").ok().and_then(|s| s.parse().ok()).unwrap_or(0);
    let mut rng = Rng((seed.wrapping_mul(0x9E3779B97F4A7C15) ^ batch.wrapping_mul(0xD1B54A32D192ED03)) | 1);
    let out_dir = std::path::PathBuf::from(std::env::var("OUT_DIR").unwrap());
    let n_services = 12;
    let mut used = std::collections::HashSet::new();
    let mut defs = Vec::new();
    let mut services = Vec::new();
    let mut gen_mod = String::new();
    let mut driver = String::new();
    writeln!(driver, "pub fn build_router(log: crate::CallLog) -> anemo::Router {{\n    let mut router = anemo::Router::new();").unwrap();
    let mut drive_calls = String::new();
    for i in 0..n_services {
        let (name, package) = loop {
            let n = rng.pick(&SERVICE_NAMES);
            let p = rng.pick(&PACKAGES);
            if used.insert(format!("{p}.{n}")) {
                break (n, p);
            }
        };
        let n_methods = 1 + rng.below(6);
        let mut ms = Vec::new();
        let mut taken = std::collections::HashSet::new();
        while ms.len() < n_methods {
            let (m, r) = METHODS[rng.below(METHODS.len())];
            if m == "r#type_" {
                continue;
            }
            // route name equal to the method name, or different
            let route = if rng.below(3) == 0 { m } else { r };
            if taken.insert(m) {
                let codec = if rng.below(2) == 0 { "anemo::rpc::codec::BincodeCodec" } else { "anemo::rpc::codec::JsonCodec" };
                let raw = rng.below(4) == 0;
                ms.push((m, route, codec, raw));
            }
        }
        let mut sb = anemo_build::manual::Service::builder().name(name).package(package);
        if rng.below(2) == 0 {
            sb = sb.comment("generated for verification");
        }
        for (m, route, codec, raw) in &ms {
            sb = sb.method(
                anemo_build::manual::Method::builder()
                    .name(*m)
                    .route_name(*route)
                    .request_type("crate::Msg")
                    .response_type("crate::Msg")
                    .codec_path(*codec)
                    .server_handler_return_raw_bytes(*raw)
                    .build(),
            );
        }
        services.push(sb.build());
        let file = format!("{}{}{}.rs", package, if package.is_empty() { "" } else { "." }, name);
        let snake = snake(name);
        let full = format!("{}{}{}", package, if package.is_empty() { "" } else { "." }, name);
        writeln!(gen_mod, "pub mod s{i} {{\n    include!(concat!(env!(\"OUT_DIR\"), \"/{file}\"));\n    pub struct Impl(pub crate::CallLog);\n    #[anemo::async_trait]\n    impl {snake}_server::{name} for Impl {{").unwrap();
        for (m, _route, codec, raw) in &ms {
            let ret = if *raw { "bytes::Bytes" } else { "crate::Msg" };
            let f = if *raw { format!("crate::handle_raw(&self.0, \"{full}\", \"{m}\", request, {})", codec.ends_with("JsonCodec")) } else { format!("crate::handle(&self.0, \"{full}\", \"{m}\", request)") };
            writeln!(gen_mod, "        async fn {m}(&self, request: anemo::Request<crate::Msg>) -> Result<anemo::Response<{ret}>, anemo::rpc::Status> {{ {f} }}").unwrap();
        }
        writeln!(gen_mod, "    }}\n}}").unwrap();
        writeln!(driver, "    router = router.add_rpc_service(s{i}::{snake}_server::{name}Server::new(s{i}::Impl(log.clone())));").unwrap();
        writeln!(drive_calls, "    {{\n        let mut client = s{i}::{snake}_client::{name}Client::new(router.clone());").unwrap();
        for (m, route, codec, raw) in &ms {
            writeln!(drive_calls, "        for scenario in 0..crate::N_SCENARIOS {{\n            let (req, id) = crate::make_request(scenario);\n            let r = client.{m}(req).await;\n            crate::judge(&log, out, \"{full}\", \"{m}\", \"{route}\", {raw}, {}, scenario, id, r);\n        }}", codec.ends_with("JsonCodec")).unwrap();
        }
        writeln!(drive_calls, "    }}").unwrap();
        defs.push(serde_json::json!({"name": name, "package": package, "methods": ms.iter().map(|(m, r, c, raw)| serde_json::json!({"name": m, "route_name": r, "codec": c, "raw_bytes": raw})).collect::<Vec<_>>()}));
    }
    writeln!(driver, "    router\n}}").unwrap();
    writeln!(driver, "pub async fn drive_all(router: anemo::Router, log: crate::CallLog, out: &mut Vec<serde_json::Value>) {{\n{drive_calls}}}").unwrap();
    anemo_build::manual::Builder::new().out_dir(&out_dir).compile(&services);
    std::fs::write(out_dir.join("generated_mod.rs"), format!("{gen_mod}\n{driver}")).unwrap();
    std::fs::write(out_dir.join("defs.json"), serde_json::to_string_pretty(&defs).unwrap()).unwrap();
}

fn snake(name: &str) -> String {
    // mirrors what the generated module names look like ("naive snake case")
    let mut s = String::new();
    let mut it = name.chars().peekable();
    while let Some(x) = it.next() {
        s.push(x.to_ascii_lowercase());
        if let Some(y) = it.peek() {
            if y.is_uppercase() {
                s.push('_');
            }
        }
    }
    s
}
