use anemo_verif_codegen as g;
use std::sync::{Arc, Mutex};

fn main() {
    let rt = tokio::runtime::Builder::new_current_thread().build().unwrap();
    let log: g::CallLog = Arc::new(Mutex::new(Vec::new()));
    let router = g::build_router(log.clone());
    let mut out = Vec::new();
    let panicked = std::panic::catch_unwind(std::panic::AssertUnwindSafe(|| {
        rt.block_on(g::drive_all(router.clone(), log.clone(), &mut out));
    }))
    .is_err();
    // a method of a service that lacks it / an unknown service under a registered prefix
    let mut extra = Vec::new();
    rt.block_on(async {
        use tower::ServiceExt;
        let defs: serde_json::Value = serde_json::from_str(g::DEFS_JSON).unwrap();
        for d in defs.as_array().unwrap() {
            let pkg = d["package"].as_str().unwrap();
            let full = format!("{}{}{}", pkg, if pkg.is_empty() { "" } else { "." }, d["name"].as_str().unwrap());
            for route in [format!("/{full}/NoSuchMethod"), format!("/{full}/"), format!("/{full}x/Get")] {
                let req = anemo::Request::new(bytes::Bytes::from_static(b"zz")).with_route(route.clone());
                let resp = router.clone().oneshot(req).await.unwrap();
                let calls = std::mem::take(&mut *log.lock().unwrap());
                extra.push(serde_json::json!({"route": route, "status": resp.status().to_u16(), "handler_invocations": calls.len()}));
            }
        }
    });
    println!("{}", serde_json::json!({"panicked": panicked, "defs": serde_json::from_str::<serde_json::Value>(g::DEFS_JSON).unwrap(), "calls": out, "unrouted": extra}));
}
