//! Runtime support for the generated services: message type, scripted handler outcomes, the
//! call log and the judge that compares what a typed client call returned with the script.
#![allow(clippy::too_many_arguments)]
use anemo::{rpc::Status, types::response::StatusCode, Request, Response};
use serde::{Deserialize, Serialize};
use std::sync::{Arc, Mutex};

#[derive(Clone, Debug, PartialEq, Eq, Serialize, Deserialize)]
pub struct Msg {
    pub id: u64,
    pub scenario: u32,
    pub text: String,
    pub blob: Vec<u8>,
    /// last field: a message whose serialization fails AFTER everything above has been written
    /// (the way a `SystemTime` before the epoch or a map with non-string keys fails in real messages)
    pub poison: Poison,
}

#[derive(Clone, Copy, Debug, PartialEq, Eq, Default)]
pub struct Poison(pub bool);

impl Serialize for Poison {
    fn serialize<S: serde::Serializer>(&self, s: S) -> Result<S::Ok, S::Error> {
        if self.0 {
            Err(serde::ser::Error::custom("this message cannot be encoded"))
        } else {
            s.serialize_bool(false)
        }
    }
}

impl<'de> Deserialize<'de> for Poison {
    fn deserialize<D: serde::Deserializer<'de>>(d: D) -> Result<Self, D::Error> {
        bool::deserialize(d).map(Poison)
    }
}

pub type CallLog = Arc<Mutex<Vec<(String, String, Msg)>>>;
pub const N_SCENARIOS: u32 = 12;
const CODES: [StatusCode; 7] = [
    StatusCode::BadRequest,
    StatusCode::NotFound,
    StatusCode::RequestTimeout,
    StatusCode::TooManyRequests,
    StatusCode::InternalServerError,
    StatusCode::VersionNotSupported,
    StatusCode::Unknown,
];

static NEXT: std::sync::atomic::AtomicU64 = std::sync::atomic::AtomicU64::new(1);

pub fn make_request(scenario: u32) -> (Request<Msg>, u64) {
    let id = NEXT.fetch_add(1, std::sync::atomic::Ordering::SeqCst);
    let mut msg = sent_msg(id, scenario);
    // scenario 8: the REQUEST cannot be encoded (and the call after it, scenario 9, is ordinary)
    msg.poison = Poison(scenario == 8);
    (Request::new(msg).with_header("x-req", id.to_string()), id)
}

fn sent_msg(id: u64, scenario: u32) -> Msg {
    // scenario 1 carries a large message (150-250 KB, echoed back reversed): whatever the codecs
    // keep between messages - scratch buffers, size hints - sees one big message followed by
    // ordinary ones
    let blob_len = if scenario == 1 { 150_000 + (id % 100_000) as usize } else { (id % 300) as usize };
    Msg { id, scenario, text: format!("héllo-{id}"), blob: (0..blob_len).map(|i| (i * 7) as u8).collect(), poison: Poison(false) }
}

fn reply(m: &Msg) -> Msg {
    Msg { id: m.id, scenario: m.scenario, text: format!("reply to {}", m.text), blob: m.blob.iter().rev().copied().collect(), poison: Poison(false) }
}

/// The error a scripted handler returns, in every shape a `Status` can have: code only, message
/// only (short / non-ASCII / 5 kB / empty), headers only, message and headers.
fn status_shape(id: u64) -> (StatusCode, Option<String>, Vec<(String, String)>) {
    let code = CODES[(id % 7) as usize];
    let two = vec![("x-err".to_owned(), id.to_string()), ("x-second".to_owned(), "2".to_owned())];
    match (id / 7) % 6 {
        0 => (code, Some(format!("scripted failure {id}")), two),
        1 => (code, None, vec![]),
        2 => (code, Some(format!("fällt aus: 失敗 {id} {}", "長".repeat((id % 1700) as usize))), vec![]),
        3 => (code, None, (0..5).map(|i| (format!("x-h{i}-ключ"), format!("wert-{id}-{}", "ü".repeat(i * 40)))).collect()),
        4 => (code, Some(String::new()), vec![("x-err".to_owned(), id.to_string())]),
        _ => (code, Some(format!("scripted failure {id}")), vec![("a".to_owned(), String::new()), (String::new(), "empty key".to_owned()), ("x-err".to_owned(), id.to_string())]),
    }
}

fn status_for(m: &Msg) -> Status {
    let (code, msg, headers) = status_shape(m.id);
    let mut st = match msg {
        Some(m) => Status::new_with_message(code, m),
        None => Status::new(code),
    };
    for (k, v) in headers {
        st = st.with_header(k, v);
    }
    st
}

/// scenarios: 0,1 Ok; 2,3 Err(Status); 4 Ok with extra response headers; 5.. raw-bytes tricks
pub fn handle(log: &CallLog, service: &str, method: &str, request: Request<Msg>) -> Result<Response<Msg>, Status> {
    let m = request.into_body();
    log.lock().unwrap().push((service.to_owned(), method.to_owned(), m.clone()));
    match m.scenario {
        2 | 3 => Err(status_for(&m)),
        4 => Ok(Response::new(reply(&m)).with_header("x-resp", "v")),
        // scenario 10: the RESPONSE cannot be encoded (and the call after it, scenario 11, is ordinary)
        10 => Ok(Response::new(Msg { poison: Poison(true), ..reply(&m) })),
        _ => Ok(Response::new(reply(&m))),
    }
}

pub fn handle_raw(log: &CallLog, service: &str, method: &str, request: Request<Msg>, json: bool) -> Result<Response<bytes::Bytes>, Status> {
    let m = request.into_body();
    log.lock().unwrap().push((service.to_owned(), method.to_owned(), m.clone()));
    let good: Vec<u8> = if json { serde_json::to_vec(&reply(&m)).unwrap() } else { bincode::serialize(&reply(&m)).unwrap() };
    match m.scenario {
        2 | 3 => Err(status_for(&m)),
        5 => Ok(Response::new(bytes::Bytes::from_static(b"\xff\xfe garbage that is no message"))),
        6 => Ok(Response::new(bytes::Bytes::from(good[..good.len() / 2].to_vec()))),
        7 if json => {
            let mut g = good.clone();
            g.extend_from_slice(b"}}trailing");
            Ok(Response::new(bytes::Bytes::from(g)))
        }
        _ => Ok(Response::new(bytes::Bytes::from(good))),
    }
}

pub fn judge(
    log: &CallLog,
    out: &mut Vec<serde_json::Value>,
    service: &str,
    method: &str,
    route_name: &str,
    raw: bool,
    json: bool,
    scenario: u32,
    id: u64,
    r: Result<Response<Msg>, Status>,
) {
    let calls: Vec<(String, String, Msg)> = std::mem::take(&mut *log.lock().unwrap());
    let mut problems: Vec<String> = Vec::new();
    // dispatch: exactly one handler invocation, of (service, method), carrying the request sent
    if scenario == 8 {
        // nothing can have been sent
        if !calls.is_empty() {
            problems.push("a request that cannot be encoded reached a handler".into());
        }
    } else if calls.len() != 1 {
        problems.push(format!("{} handler invocations for one typed call: {:?}", calls.len(), calls.iter().map(|c| (&c.0, &c.1)).collect::<Vec<_>>()));
    } else {
        let (s, m, msg) = &calls[0];
        if s != service || m != method {
            problems.push(format!("typed call {service}::{method} reached handler {s}::{m}"));
        }
        let want = sent_msg(id, scenario);
        if *msg != want {
            problems.push("handler received a different request message".into());
        }
    }
    let sent = sent_msg(id, scenario);
    let expect_err_status = matches!(scenario, 2 | 3);
    // a message that cannot be encoded - the request (8), or the response of a typed handler (10) -
    // must surface as an error status; raw-bytes handlers encode their responses themselves
    let unencodable = scenario == 8 || (scenario == 10 && !raw);
    let undecodable = raw && (scenario == 5 || scenario == 6 || (scenario == 7 && json));
    match &r {
        Ok(resp) => {
            if expect_err_status {
                problems.push("handler returned an error status but the client returned Ok".into());
            } else if unencodable {
                problems.push(format!("a message that cannot be encoded (scenario {scenario}) surfaced as a typed success: {:?}", resp.body()));
            } else if undecodable {
                problems.push(format!("undecodable payload (scenario {scenario}) surfaced as a typed success: {:?}", resp.body()));
            } else if *resp.body() != reply(&sent) {
                problems.push("client returned a different response message than the handler produced".into());
            }
            if scenario == 4 && !raw && resp.headers().get("x-resp").map(|s| s.as_str()) != Some("v") {
                problems.push("response headers set by the handler did not reach the client".into());
            }
        }
        Err(st) => {
            if expect_err_status {
                let (want_code, want_msg, want_headers) = status_shape(id);
                if st.status() != want_code {
                    problems.push(format!("status code {:?} became {:?}", want_code, st.status()));
                }
                for (k, v) in &want_headers {
                    if st.headers().get(k) != Some(v) {
                        problems.push(format!("status header {k:?} lost or altered (status shape {})", (id / 7) % 6));
                    }
                }
                let msg_hdr = st.headers().get("status-message").cloned();
                if msg_hdr != want_msg {
                    problems.push(format!("status message lost or altered (status shape {}): got {:?}, handler set {:?}", (id / 7) % 6, msg_hdr.map(|m| m.chars().take(40).collect::<String>()), want_msg.map(|m| m.chars().take(40).collect::<String>())));
                }
            } else if !undecodable && !unencodable {
                problems.push(format!("handler succeeded but the client returned an error status {:?} (scenario {scenario})", st.status()));
            }
        }
    }
    out.push(serde_json::json!({
        "service": service, "method": method, "route_name": route_name, "raw_bytes": raw, "json": json,
        "scenario": scenario, "result": match &r { Ok(_) => "Ok".to_owned(), Err(s) => format!("Err({:?})", s.status()) },
        "problems": problems,
    }));
}

include!(concat!(env!("OUT_DIR"), "/generated_mod.rs"));

pub const DEFS_JSON: &str = include_str!(concat!(env!("OUT_DIR"), "/defs.json"));
