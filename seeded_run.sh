#!/bin/bash
# usage: seeded_run.sh <seeded id dir name> <check id> [more check ids...]
# applies /verif/seeded/<dir>/patch.diff to /repo, runs the named quick checks, reverts.
D=$1; shift
cd /repo && git status --short | grep -q . && { echo "repo not clean"; exit 2; }
git -C /repo apply /verif/seeded/$D/patch.diff || { echo "patch does not apply"; exit 2; }
# evidence written while a seeded change is applied must not replace the evidence of the real tree
rm -rf /verif/target/evidence-keep; cp -r /verif/evidence /verif/target/evidence-keep
for c in "$@"; do
  /verif/check $c quick > /tmp/seeded_${D}_$c.txt 2>&1; rc=$?
  echo "seeded=$D check=$c exit=$rc :: $(grep -E '^VIOLATION' /tmp/seeded_${D}_$c.txt | head -1 | cut -c1-260)"
  grep -E "^C[0-9]+ quick|HARNESS" /tmp/seeded_${D}_$c.txt | head -2
done
git -C /repo checkout -- . ; git -C /repo status --short; rm -rf /verif/evidence; mv /verif/target/evidence-keep /verif/evidence; ( cd /verif/harness && cargo build --release --offline >/dev/null 2>&1 )
