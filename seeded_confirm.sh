#!/bin/bash
# usage: seeded_confirm.sh <ID> <worktree>   -- confirms a sub-agent's seeded change in its scratch worktree:
# with the change: workspace builds, the 79 tests pass, the demonstration fails; without it: the demonstration passes.
ID=$1; WT=$2
OUT=/verif/seeded/$ID
mkdir -p $OUT
cp -r $WT/SEEDED/* $OUT/ 2>/dev/null
cd $WT || exit 2
export CARGO_TARGET_DIR=$WT/target CARGO_NET_OFFLINE=true
git checkout -q -- crates
DEMO=$(ls $OUT/demo/*.rs | head -1)
mkdir -p crates/anemo/tests
# where the demo goes: default crates/anemo/tests/, unless README says anemo-tower / anemo-build
DEST=crates/anemo/tests
grep -qi "anemo-tower/tests" $OUT/demo/README.md 2>/dev/null && DEST=crates/anemo-tower/tests
grep -qi "anemo-build/tests" $OUT/demo/README.md 2>/dev/null && DEST=crates/anemo-build/tests
mkdir -p $DEST; cp $DEMO $DEST/seeded_demo.rs
PKG=$(echo $DEST | cut -d/ -f2)
DEMOFLAGS=""
grep -q "bmwill_anemo_verif" $OUT/demo/README.md $DEMO 2>/dev/null && DEMOFLAGS="--cfg bmwill_anemo_verif"
LOG=$OUT/confirm.log; : > $LOG
echo "== without change: demo" >> $LOG
RUSTFLAGS="$DEMOFLAGS" cargo test -p $PKG --offline --test seeded_demo >> $LOG 2>&1; A=$?
git apply $OUT/patch.diff || { echo "PATCH DOES NOT APPLY" >> $LOG; exit 2; }
echo "== with change: existing suite" >> $LOG
rm -f $DEST/seeded_demo.rs
cargo nextest run --workspace --no-fail-fast --offline --test-threads 8 >> $LOG 2>&1; B=$?
cp $DEMO $DEST/seeded_demo.rs
echo "== with change: demo" >> $LOG
RUSTFLAGS="$DEMOFLAGS" cargo test -p $PKG --offline --test seeded_demo >> $LOG 2>&1; C=$?
git checkout -q -- crates; rm -rf $DEST/seeded_demo.rs
echo "RESULT id=$ID demo_without_change_exit=$A suite_with_change_exit=$B demo_with_change_exit=$C" | tee -a $LOG
rm -rf $WT/target
