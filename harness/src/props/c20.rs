//! C20 – authorization layer gates every request and the allow-list is exact.

use super::Ctx;
use crate::{
    runner::{self, Report, RunCfg, ScenarioResult},
    world::hash_bytes,
};
use anemo::{
    types::response::{IntoResponse, StatusCode},
    PeerId, Request, Response,
};
use anemo_tower::auth::{AllowedPeers, AuthorizeRequest, RequireAuthorizationLayer};
use bytes::Bytes;
use rand::{rngs::StdRng, Rng, SeedableRng};
use serde_json::json;
use std::{
    collections::{HashMap, HashSet},
    convert::Infallible,
    sync::{
        atomic::{AtomicU64, Ordering},
        Arc, Mutex,
    },
    task::{Context, Poll},
    time::Duration,
};
use tower::{Layer, Service, ServiceExt};

#[derive(Clone, Debug, PartialEq, Eq)]
struct RespDigest {
    status: u16,
    headers: Vec<(String, String)>,
    body_len: usize,
    body_hash: u64,
}

fn digest(r: &Response<Bytes>) -> RespDigest {
    let mut headers: Vec<(String, String)> = r.headers().iter().map(|(k, v)| (k.clone(), v.clone())).collect();
    headers.sort();
    RespDigest { status: r.status().to_u16(), headers, body_len: r.body().len(), body_hash: hash_bytes(r.body()) }
}

#[derive(Default)]
struct Logs {
    /// request id -> (accepted?, refusal response digest)
    decisions: Mutex<HashMap<u64, (bool, Option<RespDigest>)>>,
    /// request id -> (mutation stamp seen by the inner service)
    invoked: Mutex<HashMap<u64, Option<String>>>,
    double_invocations: AtomicU64,
}

fn rid(req: &Request<Bytes>) -> u64 {
    req.headers().get("id").and_then(|s| s.parse().ok()).unwrap_or(0)
}

#[derive(Clone)]
struct Inner(Arc<Logs>);

impl Service<Request<Bytes>> for Inner {
    type Response = Response<Bytes>;
    type Error = Infallible;
    type Future = std::future::Ready<Result<Response<Bytes>, Infallible>>;
    fn poll_ready(&mut self, _: &mut Context<'_>) -> Poll<Result<(), Infallible>> {
        Poll::Ready(Ok(()))
    }
    fn call(&mut self, req: Request<Bytes>) -> Self::Future {
        let id = rid(&req);
        let stamp = req.headers().get("stamped-by-authorizer").cloned();
        if self.0.invoked.lock().unwrap().insert(id, stamp).is_some() {
            self.0.double_invocations.fetch_add(1, Ordering::SeqCst);
        }
        std::future::ready(Ok(Response::new(Bytes::from(format!("inner:{id}"))).with_header("served", id.to_string())))
    }
}

/// Scripted authorizer: decides by header / body hash / pseudo-randomly, produces refusal
/// responses of various shapes, mutates the request it accepts.
#[derive(Clone)]
struct Scripted {
    logs: Arc<Logs>,
    kind: u8,
}

impl AuthorizeRequest for Scripted {
    fn authorize(&self, request: &mut Request<Bytes>) -> Result<(), Response<Bytes>> {
        let id = rid(request);
        let accept = match self.kind {
            0 => request.headers().contains_key("token"),
            1 => hash_bytes(request.body()) % 3 != 0,
            _ => (id.wrapping_mul(0x9E3779B97F4A7C15) >> 60) % 2 == 0,
        };
        if accept {
            request.headers_mut().insert("stamped-by-authorizer".into(), format!("s{id}"));
            self.logs.decisions.lock().unwrap().insert(id, (true, None));
            Ok(())
        } else {
            let status = [StatusCode::NotFound, StatusCode::BadRequest, StatusCode::TooManyRequests, StatusCode::Unknown][(id % 4) as usize];
            let body_len = if id % 7 == 0 { 200_000 } else { (id % 50) as usize };
            let mut r = Response::new(crate::world::gen_bytes(id, body_len)).with_status(status).with_header("refused-by", format!("authorizer-{id}"));
            if id % 3 == 0 {
                r = r.with_header("x", "y".repeat((id % 300) as usize));
            }
            self.logs.decisions.lock().unwrap().insert(id, (false, Some(digest(&r))));
            Err(r)
        }
    }
}

/// Logging wrapper around the real allow-list authorizer.
#[derive(Clone)]
struct LoggedAllowed {
    inner: AllowedPeers,
    logs: Arc<Logs>,
}

impl AuthorizeRequest for LoggedAllowed {
    fn authorize(&self, request: &mut Request<Bytes>) -> Result<(), Response<Bytes>> {
        let id = rid(request);
        let r = self.inner.authorize(request);
        self.logs.decisions.lock().unwrap().insert(id, (r.is_ok(), r.as_ref().err().map(digest)));
        r
    }
}

fn gen_peer(rng: &mut StdRng) -> PeerId {
    let mut b = [0u8; 32];
    match rng.gen_range(0..6) {
        0 => {}
        1 => b = [0xff; 32],
        _ => rng.fill(&mut b),
    }
    PeerId(b)
}

pub fn scenario(idx: usize, seed: u64, reqs_per_task: usize) -> ScenarioResult {
    let mut rng = StdRng::seed_from_u64(seed ^ 0xc20);
    let logs = Arc::new(Logs::default());
    let use_allowlist = idx % 2 == 0;
    // allow-list and near misses
    let list_len = *[0usize, 1, 3, if super::miri() { 20 } else { 1_000 }].get((idx / 2) % 4).unwrap();
    let allowed: Vec<PeerId> = (0..list_len).map(|_| gen_peer(&mut rng)).collect();
    // stacked: two authorization layers of the same authorizer type with different policies (a
    // router-level list around a route-level one); the request must pass both
    let stacked = use_allowlist && idx % 8 == 6;
    let inner_allowed: Vec<PeerId> = allowed.iter().copied().step_by(2).collect();
    let allowed_set: HashSet<PeerId> = if stacked { inner_allowed.iter().copied().collect() } else { allowed.iter().copied().collect() };
    let mut senders: Vec<Option<PeerId>> = vec![None];
    for p in allowed.iter().take(20) {
        senders.push(Some(*p));
        let mut q = p.0;
        q[rng.gen_range(0..32)] ^= 1 << rng.gen_range(0..8); // one bit off
        senders.push(Some(PeerId(q)));
        let mut q2 = p.0;
        q2[31] = q2[31].wrapping_add(1); // shares a 31-byte prefix
        senders.push(Some(PeerId(q2)));
    }
    for _ in 0..10 {
        senders.push(Some(gen_peer(&mut rng)));
    }
    let senders = Arc::new(senders);
    let ntasks = if super::miri() { 2 } else { rng.gen_range(2..=8usize) };
    let nclones = if super::miri() { 3 } else { rng.gen_range(1..=64usize) };
    let rt = tokio::runtime::Builder::new_multi_thread().worker_threads(4).enable_all().build().unwrap();
    // sent: id -> (sender, has token, body hash)
    let sent: Arc<Mutex<HashMap<u64, Option<PeerId>>>> = Default::default();
    let got: Arc<Mutex<HashMap<u64, RespDigest>>> = Default::default();
    let next_id = Arc::new(AtomicU64::new(1));
    let dropped: Arc<Mutex<HashSet<u64>>> = Default::default();
    let kind = rng.gen_range(0..3u8);
    // ONE layered service; every task (and every clone inside a task) is a clone of it, so whatever
    // the authorizer or the layer share between clones is shared across the 4 worker threads
    enum Built {
        Allow(anemo_tower::auth::RequireAuthorization<Inner, LoggedAllowed>),
        Stacked(anemo_tower::auth::RequireAuthorization<anemo_tower::auth::RequireAuthorization<Inner, LoggedAllowed>, LoggedAllowed>),
        Script(anemo_tower::auth::RequireAuthorization<Inner, Scripted>),
    }
    let built = if stacked {
        let inner_auth = LoggedAllowed { inner: AllowedPeers::new(inner_allowed.clone()), logs: logs.clone() };
        let outer_auth = LoggedAllowed { inner: AllowedPeers::new(allowed.clone()), logs: logs.clone() };
        let inner_layered = RequireAuthorizationLayer::new(inner_auth).layer(Inner(logs.clone()));
        Built::Stacked(RequireAuthorizationLayer::new(outer_auth).layer(inner_layered))
    } else if use_allowlist {
        let auth = LoggedAllowed { inner: AllowedPeers::new(allowed.clone()), logs: logs.clone() };
        Built::Allow(RequireAuthorizationLayer::new(auth).layer(Inner(logs.clone())))
    } else {
        let auth = Scripted { logs: logs.clone(), kind };
        Built::Script(RequireAuthorizationLayer::new(auth).layer(Inner(logs.clone())))
    };
    rt.block_on(async {
        let mut hs = Vec::new();
        let start = Arc::new(tokio::sync::Barrier::new(ntasks));
        for t in 0..ntasks {
            let (senders, sent, got, next_id, start) = (senders.clone(), sent.clone(), got.clone(), next_id.clone(), start.clone());
            let dropped = dropped.clone();
            let mut rng = StdRng::seed_from_u64(seed ^ ((t as u64) << 24));
            macro_rules! drive {
                ($svc:expr) => {{
                    let svc = $svc.clone();
                    hs.push(tokio::spawn(async move {
                        // clones of the layered service, used round-robin with poll_ready/call interleaved
                        let mut clones: Vec<_> = (0..nclones).map(|_| svc.clone()).collect();
                        let mut my_sent = Vec::with_capacity(reqs_per_task);
                        let mut my_got = Vec::with_capacity(reqs_per_task);
                        start.wait().await;
                        for i in 0..reqs_per_task {
                            let id = next_id.fetch_add(1, Ordering::SeqCst);
                            let who = senders[rng.gen_range(0..senders.len())];
                            let mut req = Request::new(crate::world::gen_bytes(id, (id % 40) as usize)).with_header("id", id.to_string());
                            if rng.gen_bool(0.5) {
                                req = req.with_header("token", "t");
                            }
                            if let Some(p) = who {
                                req = req.with_extension(p);
                            }
                            my_sent.push((id, who));
                            let k = i % clones.len();
                            // readiness of another clone is polled in between
                            let other = (k + 1) % clones.len();
                            let _ = clones[other].ready().await;
                            if rng.gen_range(0..20) == 0 {
                                // the caller drops the response future without ever polling it (lost
                                // select! branch, fire-and-forget): the decision and - if accepted - the
                                // invocation have happened in call() all the same
                                let fut = clones[k].ready().await.unwrap().call(req);
                                drop(fut);
                                dropped.lock().unwrap().insert(id);
                                continue;
                            }
                            let r = clones[k].ready().await.unwrap().call(req).await.unwrap();
                            my_got.push((id, digest(&r)));
                            if i % 64 == 0 {
                                tokio::task::yield_now().await;
                            }
                        }
                        sent.lock().unwrap().extend(my_sent);
                        got.lock().unwrap().extend(my_got);
                    }));
                }};
            }
            match &built {
                Built::Allow(svc) => drive!(svc),
                Built::Stacked(svc) => drive!(svc),
                Built::Script(svc) => drive!(svc),
            }
        }
        for h in hs {
            let _ = h.await;
        }
    });
    drop(rt);
    // ---- oracle over the three logs
    let sent = sent.lock().unwrap();
    let got = got.lock().unwrap();
    let decisions = logs.decisions.lock().unwrap();
    let dropped = dropped.lock().unwrap();
    let mut n_dropped = 0u64;
    let invoked = logs.invoked.lock().unwrap();
    let mut problems: Vec<String> = Vec::new();
    let (mut n_acc, mut n_ref, mut n_absent, mut n_listed, mut n_unlisted) = (0u64, 0u64, 0u64, 0u64, 0u64);
    if logs.double_invocations.load(Ordering::SeqCst) > 0 {
        problems.push("the wrapped service was invoked more than once for one request".into());
    }
    for (id, who) in sent.iter() {
        let Some((accepted, refusal)) = decisions.get(id) else {
            problems.push(format!("request {id} was never shown to the authorizer"));
            break;
        };
        let was_invoked = invoked.contains_key(id);
        if dropped.contains(id) {
            // response future dropped unpolled: only "invoked iff accepted" can be judged
            n_dropped += 1;
            if *accepted != was_invoked {
                problems.push(format!("request {id} (response future dropped before its first poll) was {} by the authorizer but the wrapped service was {}invoked", if *accepted { "accepted" } else { "refused" }, if was_invoked { "" } else { "not " }));
            }
            continue;
        }
        let Some(resp) = got.get(id) else {
            problems.push(format!("request {id} got no response"));
            break;
        };
        if *accepted {
            n_acc += 1;
            if !was_invoked {
                problems.push(format!("request {id} was accepted but the wrapped service was not invoked"));
            }
            let want_body = format!("inner:{id}");
            if resp.status != 200 || resp.body_len != want_body.len() || resp.body_hash != hash_bytes(want_body.as_bytes()) {
                problems.push(format!("accepted request {id} did not receive the wrapped service's response for it"));
            }
            if !use_allowlist && invoked.get(id).cloned().flatten() != Some(format!("s{id}")) {
                problems.push(format!("the wrapped service did not see the authorizer's mutation of request {id}"));
            }
        } else {
            n_ref += 1;
            if was_invoked {
                problems.push(format!("request {id} was refused but the wrapped service was invoked"));
            }
            if Some(resp) != refusal.as_ref() {
                problems.push(format!("refused request {id} did not receive exactly the authorizer's response (got status {} {}B, authorizer produced {:?})", resp.status, resp.body_len, refusal.as_ref().map(|r| (r.status, r.body_len))));
            }
        }
        if use_allowlist {
            let want_accept = who.map(|p| allowed_set.contains(&p)).unwrap_or(false);
            if *accepted != want_accept {
                problems.push(format!("allow-list of {} ids: sender {:?} accepted={accepted}, expected {want_accept}", allowed_set.len(), who.map(|p| crate::world::pid_hex(&p))));
            }
            match who {
                None => {
                    n_absent += 1;
                    if resp.status != StatusCode::InternalServerError.to_u16() {
                        problems.push(format!("request without sender identity got status {}", resp.status));
                    }
                }
                Some(p) if !allowed_set.contains(&p) => {
                    n_unlisted += 1;
                    if resp.status != StatusCode::NotFound.to_u16() {
                        problems.push(format!("unlisted sender got status {}", resp.status));
                    }
                }
                _ => n_listed += 1,
            }
        }
        if problems.len() > 5 {
            break;
        }
    }
    for id in invoked.keys() {
        if !sent.contains_key(id) {
            problems.push(format!("wrapped service invoked for unknown request {id}"));
        }
    }
    let _ = StatusCode::Success.into_response();
    let sample = json!({"scenario": idx, "seed": seed, "authorizer": if stacked { format!("AllowedPeers({list_len}) around AllowedPeers({})", inner_allowed.len()) } else if use_allowlist { format!("AllowedPeers({list_len})") } else { format!("scripted kind {kind}") },
        "tasks": ntasks, "clones_per_task": nclones, "requests": sent.len(), "accepted": n_acc, "refused": n_ref,
        "sender_absent": n_absent, "sender_listed": n_listed, "sender_unlisted": n_unlisted});
    let res = if !problems.is_empty() {
        let mut w = sample;
        w["problems"] = json!(problems);
        ScenarioResult::violated(problems[0].clone(), w)
    } else {
        ScenarioResult::held(format!("auth={}{} list={list_len} clones={} acc={} ref={}", if use_allowlist { "allowlist" } else { "scripted" }, if stacked { "-stacked" } else { "" }, match nclones { 1 => "1", 2..=8 => "2-8", _ => "9+" }, n_acc > 0, n_ref > 0))
            .with_sample(sample)
    };
    res.count("requests", sent.len() as u64)
        .count("accepted", n_acc)
        .count("refused", n_ref)
        .count("allowlist_sender_absent", n_absent)
        .count("allowlist_sender_listed", n_listed)
        .count("allowlist_sender_unlisted", n_unlisted)
        .count("response_futures_dropped_unpolled", n_dropped)
}

pub fn run(ctx: &Ctx) -> i32 {
    let tier = ctx.tier;
    let cfg = RunCfg {
        property: "C20",
        tier,
        seed: ctx.seed,
        scenarios: if super::miri() { 2 } else { tier.pick(256, 3_000) },
        threads: 4,
        watchdog: Duration::from_secs(if super::miri() { 3_000 } else { 300 }),
        budget: Duration::from_secs(tier.pick(90, 900)),
        only: ctx.only,
    };
    let per_task = if super::miri() { 10 } else { tier.pick(2_000, 15_000) };
    let summary = runner::run_scenarios(&cfg, move |i, s| scenario(i, s, per_task));
    runner::finish(Report {
        property: "C20",
        tier,
        seed: ctx.seed,
        level: "exploration",
        rule: "scenario = RequireAuthorizationLayer with either a logging wrapper around the real AllowedPeers (lists of 0/1/3/1000 ids; senders absent, listed, one bit off a listed id, sharing a 31-byte prefix, all-zero/all-ones, random) or a scripted authorizer (by header, by body hash, pseudo-random; refusal responses of four statuses, up to 200 KB bodies, extra headers; accepted requests are mutated) around a logging inner service; 2-8 tasks on a 4-worker runtime drive 1-64 clones each with poll_ready/call interleaved across clones, 2k (thorough 15k) requests per task; oracle over the three logs per request id: invoked iff accepted, exactly once; accepted => the inner service's response for that id and the inner saw the mutation; refused => the authorizer's response byte for byte and no invocation; allow-list verdict and status vs. the reference (listed / NotFound / InternalServerError); distinct by (authorizer, list size, clone bucket, outcomes seen) ONE layered service is built per scenario and all tasks drive clones of it (whatever the authorizer or the layer share between clones is shared across the worker threads). 5% of the calls drop the response future without polling it ('invoked iff accepted' is still judged); every eighth scenario stacks two layers of the same authorizer type with different allow-lists.".into(),
        assumptions: vec!["response equality on (status, sorted headers, body length, 64-bit body hash)".into()],
        summary,
        extra: Default::default(),
        exhaustive: None,
        min_signatures: 8,
        required_counters: vec!["accepted", "refused", "allowlist_sender_absent", "allowlist_sender_listed", "allowlist_sender_unlisted"],
    })
}
