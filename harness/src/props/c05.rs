//! C05 – simultaneous mutual dials converge on one shared connection.

use super::Ctx;
use crate::{
    fabric::LinkParams,
    runner::{self, Report, RunCfg, ScenarioResult},
    world::{self, pid_hex, NodeCfg, RpcSpec, World},
};
use anemo::types::PeerEvent;
use rand::Rng;
use serde_json::json;
use std::time::Duration;

fn ev_sig(evs: &[PeerEvent]) -> String {
    evs.iter()
        .map(|e| match e {
            PeerEvent::NewPeer(_) => "N",
            PeerEvent::LostPeer(_, _) => "L",
        })
        .collect::<Vec<_>>()
        .join("")
}

pub fn scenario(idx: usize, seed: u64) -> ScenarioResult {
    runner::sim_block_on(|| async move {
        let mut w = World::new(seed);
        // identities: force both orderings equally often
        let (mut ka, mut kb) = (w.gen_key(), w.gen_key());
        let a_greater_wanted = idx % 2 == 0;
        if (world::peer_id_of_key(&ka) > world::peer_id_of_key(&kb)) != a_greater_wanted {
            std::mem::swap(&mut ka, &mut kb);
        }
        let lossy = w.rng.gen_range(0..10) < 4;
        let lat_lo = Duration::from_micros(w.rng.gen_range(100..5_000));
        let lat_hi_ab = lat_lo + Duration::from_micros(w.rng.gen_range(0..20_000));
        let lat_hi_ba = lat_lo + Duration::from_micros(w.rng.gen_range(0..20_000));
        let loss = if lossy { w.rng.gen_range(0.02..0.2) } else { 0.0 };
        let dup = if lossy { w.rng.gen_range(0.0..0.1) } else { 0.0 };

        let mut cfg = world::default_config();
        let mut q = anemo::QuicConfig::default();
        q.max_idle_timeout_ms = Some(10_000);
        q.keep_alive_interval_ms = Some(1_000);
        cfg.quic = Some(q);
        cfg.connect_timeout_ms = Some(20_000);
        // how each side comes to dial: an explicit connect(), or the background dialer after the
        // peer was entered in its table with High affinity (the dial then starts at the next
        // connectivity check, 50-300 ms apart)
        let bg_a = w.rng.gen_range(0..10) < 3;
        let bg_b = w.rng.gen_range(0..10) < 3;
        let mut ca = NodeCfg::new(ka);
        ca.config = cfg.clone();
        let mut cb = NodeCfg::new(kb);
        cb.config = cfg;
        // a connection limit that the pair itself fills: the inbound half of a mutual dial is admitted
        // on arrival (nothing established yet) and must then go through the tie-break like any other
        let lim_a = if w.rng.gen_range(0..10) < 2 { Some(w.rng.gen_range(1..=2usize)) } else { None };
        let lim_b = if w.rng.gen_range(0..10) < 2 { Some(w.rng.gen_range(1..=2usize)) } else { None };
        ca.config.max_concurrent_connections = lim_a;
        cb.config.max_concurrent_connections = lim_b;
        let limited = lim_a.is_some() || lim_b.is_some();
        ca.config.connectivity_check_interval_ms = Some(w.rng.gen_range(50..300));
        cb.config.connectivity_check_interval_ms = Some(w.rng.gen_range(50..300));
        let a = w.start_node(ca).unwrap();
        let b = w.start_node(cb).unwrap();
        w.fabric.set_link(
            a.addr,
            b.addr,
            LinkParams {
                latency_min: lat_lo,
                latency_max: lat_hi_ab,
                loss,
                dup,
            },
        );
        w.fabric.set_link(
            b.addr,
            a.addr,
            LinkParams {
                latency_min: lat_lo,
                latency_max: lat_hi_ba,
                loss,
                dup,
            },
        );
        let rtt = lat_lo * 2 + (lat_hi_ab - lat_lo) / 2 + (lat_hi_ba - lat_lo) / 2;
        let span = rtt.as_micros() as i64 * 3;
        // mostly within +-3 RTT; one scenario in ten lets the second dial start (and so its handshake
        // finish) up to 6 s after the first - a handshake delayed by seconds is still one that finishes
        let off: i64 = if idx % 7 == 0 {
            0
        } else if idx % 10 == 3 {
            let late = w.rng.gen_range(500_000..6_000_000i64);
            if w.rng.gen_bool(0.5) { late } else { -late }
        } else {
            w.rng.gen_range(-span..=span)
        };
        let (off_a, off_b) = if off >= 0 {
            (Duration::ZERO, Duration::from_micros(off as u64))
        } else {
            (Duration::from_micros((-off) as u64), Duration::ZERO)
        };

        let (na, nb) = (a.net.clone(), b.net.clone());
        let (addr_a, addr_b) = (a.addr, b.addr);
        let (id_a, id_b) = (a.peer_id, b.peer_id);
        async fn background(net: &anemo::Network, peer: anemo::PeerId, addr: std::net::SocketAddr) -> anyhow::Result<anemo::PeerId> {
            net.known_peers().insert(anemo::types::PeerInfo { peer_id: peer, affinity: anemo::types::PeerAffinity::High, address: vec![addr.into()] });
            for _ in 0..60_000 {
                if net.peers().contains(&peer) {
                    return Ok(peer);
                }
                tokio::time::sleep(Duration::from_millis(1)).await;
            }
            Err(anyhow::anyhow!("background dialing did not connect within 60 s"))
        }
        let dial_a = async {
            tokio::time::sleep(off_a).await;
            if bg_a { background(&na, id_b, addr_b).await } else { na.connect(addr_b).await }
        };
        let dial_b = async {
            tokio::time::sleep(off_b).await;
            if bg_b { background(&nb, id_a, addr_a).await } else { nb.connect(addr_a).await }
        };
        // "both sides keep the same single connection and drop the other": whoever closes a
        // connection does so because it keeps another one, so from the moment both sides have listed
        // each other once there is never an instant at which NEITHER lists the other.  Sampled every
        // millisecond of virtual time through the dials and the first seconds after them.
        let both_empty_at: std::sync::Arc<std::sync::Mutex<Option<u64>>> = Default::default();
        let sampler = {
            let (sa, sb, log, out) = (a.net.clone(), b.net.clone(), w.log.clone(), both_empty_at.clone());
            tokio::spawn(async move {
                let (mut seen_a, mut seen_b) = (false, false);
                loop {
                    let (ea, eb) = (sa.peers().is_empty(), sb.peers().is_empty());
                    seen_a |= !ea;
                    seen_b |= !eb;
                    if seen_a && seen_b && ea && eb {
                        let mut o = out.lock().unwrap();
                        if o.is_none() {
                            *o = Some(log.now());
                        }
                    }
                    tokio::time::sleep(Duration::from_millis(1)).await;
                }
            })
        };
        let (ra, rb) = tokio::join!(dial_a, dial_b);
        // the network becomes quiet: no more faults
        w.fabric.clear_links();
        w.fabric.set_default_link(LinkParams::fixed(lat_lo));
        tokio::time::sleep(Duration::from_secs(5)).await;
        sampler.abort();
        tokio::time::sleep(Duration::from_secs(25)).await;

        let witness_base = json!({
            "scenario": idx, "seed": seed,
            "a": pid_hex(&a.peer_id), "b": pid_hex(&b.peer_id),
            "a_greater": a.peer_id > b.peer_id,
            "offset_us": off, "loss": loss, "dup": dup,
            "connection_limits": [lim_a, lim_b],
            "a_dials_by": if bg_a { "background (High affinity)" } else { "connect()" },
            "b_dials_by": if bg_b { "background (High affinity)" } else { "connect()" },
            "lat_us": [lat_lo.as_micros() as u64, lat_hi_ab.as_micros() as u64, lat_hi_ba.as_micros() as u64],
            "dial_a": format!("{:?}", ra.as_ref().map(pid_hex).map_err(|e| e.to_string())),
            "dial_b": format!("{:?}", rb.as_ref().map(pid_hex).map_err(|e| e.to_string())),
        });
        let finish = |r: ScenarioResult| {
            w.close();
            r
        };

        if ra.is_err() || rb.is_err() {
            let why = if lossy {
                "a handshake did not finish under loss (outside the quantifier)"
            } else {
                "a dial failed without loss"
            };
            return finish(if lossy {
                ScenarioResult::skipped(why)
            } else if limited {
                // the later inbound half found the limit reached by the earlier half: a legitimate
                // rejection (C10), and not a mutual dial in which both handshakes finish
                ScenarioResult::skipped("one dial was rejected by the configured connection limit")
            } else {
                ScenarioResult::inconclusive(why).with_sample(witness_base)
            });
        }
        if ra.as_ref().unwrap() != &b.peer_id || rb.as_ref().unwrap() != &a.peer_id {
            return finish(ScenarioResult::violated(
                "a dial returned an identity other than the peer's",
                witness_base,
            ));
        }

        let events_of = |n: usize| -> Vec<PeerEvent> {
            w.log
                .lock()
                .events
                .get(&n)
                .map(|v| v.iter().map(|e| e.ev.clone()).collect())
                .unwrap_or_default()
        };
        let ev_a = events_of(a.idx);
        let ev_b = events_of(b.idx);
        let pa = a.net.peers();
        let pb = b.net.peers();
        let mut problems = Vec::new();
        if pa != vec![b.peer_id] {
            problems.push(format!("A lists {:?} instead of exactly [B]", pa.iter().map(pid_hex).collect::<Vec<_>>()));
        }
        if pb != vec![a.peer_id] {
            problems.push(format!("B lists {:?} instead of exactly [A]", pb.iter().map(pid_hex).collect::<Vec<_>>()));
        }
        let sa = ev_sig(&ev_a);
        let sb = ev_sig(&ev_b);
        if let Some(t) = *both_empty_at.lock().unwrap() {
            problems.push(format!("at t={t} us neither side listed the other although both had before: the two sides did not keep the same connection (events A {sa:?}, B {sb:?})"));
        }
        for (side, s) in [("A", &sa), ("B", &sb)] {
            // Two explicit dials mean two connections: a side sees N, or NLN when the tie-break
            // replaces its first registration.  With a background side there may be more than two:
            // a side whose first connection was closed as the loser BEFORE the winner reached it is
            // unconnected for a moment, and its background dialer may start another attempt that is
            // then tie-broken away as well.  The property bounds the outcome (one shared connection,
            // then silence - checked below), not the number of transient replacements, so there any
            // strictly alternating sequence that starts and ends connected is accepted.
            let alternating = s.len() % 2 == 1 && s.chars().enumerate().all(|(i, c)| c == if i % 2 == 0 { 'N' } else { 'L' });
            let ok = if bg_a || bg_b { alternating } else { s == "N" || s == "NLN" };
            if !ok {
                problems.push(format!("{side}'s event sequence is {s:?}, expected N or NLN{}", if bg_a || bg_b { " (or a longer strictly alternating sequence ending connected, with a background dialer)" } else { "" }));
            }
        }
        // RPCs in both directions
        let spec = RpcSpec::simple(64, seed);
        let (_, r1) = world::rpc(&w.log, &a.net, a.idx, b.peer_id, &spec).await;
        let (_, r2) = world::rpc(&w.log, &b.net, b.idx, a.peer_id, &spec).await;
        if let Err(e) = &r1 {
            problems.push(format!("rpc A->B failed after quiescence: {e:#}"));
        }
        if let Err(e) = &r2 {
            problems.push(format!("rpc B->A failed after quiescence: {e:#}"));
        }
        // which physical connection survived, as seen from each side's handler
        let (at_b_inbound, at_a_inbound) = {
            let g = w.log.lock();
            let mut stats = world::DeliveryStats::default();
            problems.extend(world::check_delivery(&g, &mut stats));
            let at_b = g.starts.iter().find(|s| s.node == b.idx).and_then(|s| s.inbound_origin);
            let at_a = g.starts.iter().find(|s| s.node == a.idx).and_then(|s| s.inbound_origin);
            (at_b, at_a)
        };
        let mut survivor = "unknown".to_owned();
        if let (Some(bi), Some(ai)) = (at_b_inbound, at_a_inbound) {
            // bi: B sees the connection as inbound  <=> A dialed it.  ai: A sees inbound <=> B dialed.
            if bi == ai {
                problems.push(format!(
                    "the two sides kept different connections (B sees inbound={bi}, A sees inbound={ai})"
                ));
            } else {
                let dialer_is_a = bi;
                let dialer_greater = if dialer_is_a { a.peer_id > b.peer_id } else { b.peer_id > a.peer_id };
                survivor = if dialer_greater { "dialed-by-greater".into() } else { "dialed-by-lesser".into() };
            }
        }
        // quiet period: no further events
        let n_before = (ev_a.len(), ev_b.len());
        tokio::time::sleep(Duration::from_secs(60)).await;
        let n_after = (events_of(a.idx).len(), events_of(b.idx).len());
        if n_before != n_after {
            problems.push(format!(
                "events during the quiet period: A {}->{}, B {}->{}",
                n_before.0, n_after.0, n_before.1, n_after.1
            ));
        }
        if a.net.peers() != vec![b.peer_id] || b.net.peers() != vec![a.peer_id] {
            problems.push("listing changed during the quiet period".into());
        }
        let mut witness = witness_base;
        witness["events_a"] = json!(format!("{:?}", events_of(a.idx)));
        witness["events_b"] = json!(format!("{:?}", events_of(b.idx)));
        witness["survivor"] = json!(survivor);
        witness["fabric"] = json!(w.fabric.stats());
        let stats = w.fabric.stats();
        let res = if problems.is_empty() {
            let sig = format!(
                "a_greater={} A={} B={} survivor={} bg={}",
                a.peer_id > b.peer_id, sa, sb, survivor, bg_a as u8 + bg_b as u8
            );
            ScenarioResult::held(sig).with_sample(witness)
        } else {
            witness["problems"] = json!(problems);
            ScenarioResult::violated(problems[0].clone(), witness)
        };
        let res = res
            .count("datagrams_sent", stats.sent)
            .count("datagrams_lost", stats.lost)
            .count("datagrams_duplicated", stats.duplicated)
            // (with a background side the second dial may never start - the peer is connected before
            // the next connectivity check - so the cross-scenario survivor rule is only fed by
            // scenarios in which both sides dialed explicitly)
            .count(&if bg_a || bg_b { "survivor_not_compared_background_side".to_owned() } else { format!("survivor_{survivor}") }, 1)
            .count("mutual_dials_with_a_background_side", (bg_a || bg_b) as u64)
            .count("mutual_dials_with_a_connection_limit", limited as u64)
            .count("mutual_dials_completed", 1);
        finish(res)
    })
}

pub fn run(ctx: &Ctx) -> i32 {
    let cfg = RunCfg {
        property: "C05",
        tier: ctx.tier,
        seed: ctx.seed,
        scenarios: ctx.tier.pick(6_000, 200_000),
        threads: super::threads(),
        watchdog: Duration::from_secs(120),
        budget: Duration::from_secs(ctx.tier.pick(90, 900)),
        only: ctx.only,
    };
    let n_pure = 4usize;
    let n_direct = ctx.tier.pick(8, 64);
    let pure_n = ctx.tier.pick(20_000, 500_000);
    let race_rounds = ctx.tier.pick(60_000, 400_000);
    let n_real = ctx.tier.pick(4, 32);
    let real_rounds = ctx.tier.pick(150, 600);
    let mut summary = runner::run_scenarios(&cfg, move |i, s| {
        if i < n_pure {
            super::direct::c05_pure(i, s, pure_n)
        } else if i < n_pure + n_direct {
            super::direct::c05_direct(i, s)
        } else if i < n_pure + n_direct + 8 {
            // close notifications racing registrations on two threads (shared with C04)
            super::direct::c04_race(i, s, race_rounds)
        } else if i < n_pure + n_direct + 8 + n_real {
            // real sockets, 4 worker threads: true parallelism between the two connection managers
            super::realnet::mutual_scenario(i, s, real_rounds)
        } else {
            scenario(i, s)
        }
    });
    // cross-scenario determinism: the survivor may depend only on identities and directions
    let g = summary.counters.get("survivor_dialed-by-greater").copied().unwrap_or(0);
    let l = summary.counters.get("survivor_dialed-by-lesser").copied().unwrap_or(0);
    if g > 0 && l > 0 {
        summary.violations.push((
            usize::MAX,
            format!("surviving connection is not a function of identities and directions: dialed-by-greater in {g} scenarios, dialed-by-lesser in {l}"),
            json!({"greater": g, "lesser": l}),
            None,
        ));
    }
    runner::finish(Report {
        property: "C05",
        tier: ctx.tier,
        seed: ctx.seed,
        level: "exploration",
        rule: "four kinds. (0) real sockets: two Networks on UDP loopback and a 4-worker runtime dial each other simultaneously (barrier, 0-800 us skew) for 150 (thorough 600) rounds; per round both list each other exactly once (a wrong listing is a verdict only when unchanged for 5 s), events alternate N/L and end connected, RPCs succeed both ways, nothing changes in a quiet window. (1) pure decision: the real tie-break function on random and structured identity pairs for all origin pairs; both sides and both arrival orders must keep the same dial, equal to 'dialed by the greater PeerId'. (2) direct drive: two bare endpoints, two real connections (one dialed each way), a stand-alone active-peer set per side; ALL 24 orders of the four registrations, followed by the late handler exits of the replaced connections in both orders; each side ends with one entry for the same physical connection, survivor open, loser closed, events N or NLN. (3) scenario = two real Networks on the simulated fabric dialing each other with a seeded start offset in [-3RTT,3RTT], per-direction random latency, optional loss/dup; non-trivial = both dials completed; distinct by (id order, per-side NewPeer/LostPeer sequence, which dial survived) In (3) either side may dial through the background dialer (High-affinity table entry, connectivity check every 50-300 ms) instead of connect(), either side may have a connection limit of 1-2, and one scenario in ten starts the second dial 0.5-6 s late; with a background side any strictly alternating event sequence that starts and ends connected is accepted, and a sampler (every virtual millisecond through the dials) asserts that once both sides have listed each other there is never an instant at which neither does. (0) contains one round per scenario whose second dial completes 2-3 real seconds after the first.".into(),
        assumptions: vec![
            "QUIC/TLS run on tokio's virtual clock over an in-memory datagram fabric (socket hook)".into(),
            "interleavings are those produced by seeded latencies/offsets, not an enumeration".into(),
        ],
        summary,
        extra: Default::default(),
        exhaustive: None,
        min_signatures: 4,
        required_counters: vec!["mutual_dials_completed", "pure_decisions_checked", "direct_registration_orders", "race_rounds", "realnet_mutual_both_ok"],
    })
}
