//! C18 – per-peer in-flight limit holds and never leaks capacity.

use super::Ctx;
use crate::runner::{self, Report, RunCfg, ScenarioResult};
use anemo::{rpc::Status, types::response::StatusCode, PeerId, Request, Response};
use anemo_tower::inflight_limit::{InflightLimitLayer, WaitMode};
use bytes::Bytes;
use futures::future::BoxFuture;
use rand::{rngs::StdRng, Rng, SeedableRng};
use serde_json::json;
use std::{
    collections::BTreeSet,
    future::Future,
    pin::Pin,
    sync::{
        atomic::{AtomicI64, AtomicU64, Ordering},
        Arc, Mutex,
    },
    task::{Context, Poll},
    time::Duration,
};
use tower::{Layer, Service, ServiceExt};

pub const NPEERS: usize = 6;
pub const GAUGES: usize = 4096;

pub struct Shared {
    gauge: Vec<AtomicI64>,
    max_seen: Vec<AtomicI64>,
    limit: i64,
    over: Mutex<Vec<String>>,
    invoked: AtomicU64,
    finished_ok: AtomicU64,
    finished_err: AtomicU64,
    dropped: AtomicU64,
    invoked_ids: Mutex<BTreeSet<u64>>,
}

#[derive(Clone)]
pub struct Gauged(pub Arc<Shared>);

struct Guard {
    sh: Arc<Shared>,
    peer: usize,
    done: bool,
}

impl Drop for Guard {
    fn drop(&mut self) {
        self.sh.gauge[self.peer].fetch_sub(1, Ordering::SeqCst);
        if !self.done {
            self.sh.dropped.fetch_add(1, Ordering::SeqCst);
        }
    }
}

struct YieldN(u32);
impl Future for YieldN {
    type Output = ();
    fn poll(mut self: Pin<&mut Self>, cx: &mut Context<'_>) -> Poll<()> {
        if self.0 == 0 {
            return Poll::Ready(());
        }
        self.0 -= 1;
        cx.waker().wake_by_ref();
        Poll::Pending
    }
}

impl Service<Request<Bytes>> for Gauged {
    type Response = Response<Bytes>;
    type Error = Status;
    type Future = BoxFuture<'static, Result<Response<Bytes>, Status>>;
    fn poll_ready(&mut self, _: &mut Context<'_>) -> Poll<Result<(), Status>> {
        Poll::Ready(Ok(()))
    }
    fn call(&mut self, req: Request<Bytes>) -> Self::Future {
        let sh = self.0.clone();
        let peer = req.peer_id().map(|p| p.0[0] as usize | (p.0[1] as usize) << 8).unwrap_or(0) % GAUGES;
        let id: u64 = req.headers().get("id").and_then(|s| s.parse().ok()).unwrap_or(0);
        // the observation: one atomic update whose return value is what we judge
        let now = sh.gauge[peer].fetch_add(1, Ordering::SeqCst) + 1;
        sh.max_seen[peer].fetch_max(now, Ordering::SeqCst);
        if now > sh.limit {
            sh.over.lock().unwrap().push(format!("peer {peer}: {now} requests inside the wrapped service at once, limit {}", sh.limit));
        }
        sh.invoked.fetch_add(1, Ordering::SeqCst);
        sh.invoked_ids.lock().unwrap().insert(id);
        let mut guard = Guard { sh: sh.clone(), peer, done: false };
        let behaviour = req.headers().get("b").cloned().unwrap_or_default();
        Box::pin(async move {
            let mut it = behaviour.split(':');
            match it.next() {
                Some("never") => {
                    futures::future::pending::<()>().await;
                    unreachable!()
                }
                Some("err") => {
                    YieldN(it.next().and_then(|s| s.parse().ok()).unwrap_or(0)).await;
                    guard.done = true;
                    sh.finished_err.fetch_add(1, Ordering::SeqCst);
                    drop(guard);
                    Err(Status::new(StatusCode::BadRequest))
                }
                _ => {
                    YieldN(it.next().and_then(|s| s.parse().ok()).unwrap_or(0)).await;
                    guard.done = true;
                    sh.finished_ok.fetch_add(1, Ordering::SeqCst);
                    drop(guard);
                    Ok(Response::new(Bytes::from(id.to_string())))
                }
            }
        })
    }
}

/// Polls the inner future at most `budget` times, then gives up (the caller drops it).
struct PollBudget<F> {
    fut: Pin<Box<F>>,
    budget: u32,
}
impl<F: Future> Future for PollBudget<F> {
    type Output = Option<F::Output>;
    fn poll(mut self: Pin<&mut Self>, cx: &mut Context<'_>) -> Poll<Self::Output> {
        if self.budget == 0 {
            return Poll::Ready(None);
        }
        self.budget -= 1;
        match self.fut.as_mut().poll(cx) {
            Poll::Ready(v) => Poll::Ready(Some(v)),
            Poll::Pending => {
                if self.budget == 0 {
                    Poll::Ready(None)
                } else {
                    Poll::Pending
                }
            }
        }
    }
}

fn pid(p: usize) -> PeerId {
    let mut b = [0u8; 32];
    b[0] = p as u8;
    b[1] = (p >> 8) as u8;
    b[31] = 0xaa;
    PeerId(b)
}

fn req(id: u64, peer: Option<usize>, behaviour: &str) -> Request<Bytes> {
    let mut r = Request::new(Bytes::new()).with_header("id", id.to_string()).with_header("b", behaviour);
    if let Some(p) = peer {
        r = r.with_extension(pid(p));
    }
    r
}

pub fn scenario(idx: usize, seed: u64, reqs_per_task: usize) -> ScenarioResult {
    let mut rng = StdRng::seed_from_u64(seed ^ 0xc18);
    let limit = *[1usize, 2, 3, 8, 64].get(idx % 5).unwrap();
    let block = (idx / 5) % 2 == 0;
    let mode = if block { WaitMode::Block } else { WaitMode::ReturnError };
    let npeers = rng.gen_range(1..=NPEERS);
    let ntasks = if super::miri() { 3 } else { rng.gen_range(4..=16usize) };
    let sh = Arc::new(Shared {
        gauge: (0..GAUGES).map(|_| AtomicI64::new(0)).collect(),
        max_seen: (0..GAUGES).map(|_| AtomicI64::new(0)).collect(),
        limit: limit as i64,
        over: Mutex::new(vec![]),
        invoked: AtomicU64::new(0),
        finished_ok: AtomicU64::new(0),
        finished_err: AtomicU64::new(0),
        dropped: AtomicU64::new(0),
        invoked_ids: Mutex::new(BTreeSet::new()),
    });
    let layer = InflightLimitLayer::new(limit, mode);
    let svc = layer.layer(Gauged(sh.clone()));
    let rt = tokio::runtime::Builder::new_multi_thread().worker_threads(4).enable_all().build().unwrap();
    let problems: Arc<Mutex<Vec<String>>> = Default::default();
    let stats: Arc<[AtomicU64; 6]> = Arc::new(Default::default()); // ok, err, refused, cancelled, missing-peer, total
    let next_id = Arc::new(AtomicU64::new(1));
    // ---- sequential endings, decided on logical steps (no clock, no scheduler): one request of
    // one peer at a time, hand-polled with a no-op waker, ending in every way a request can end
    // (success or inner error after 0-7 yields, dropped before the first poll, dropped while inside
    // the wrapped service).  With nothing of that peer executing, the next request must enter the
    // wrapped service within its first polls: a slot that was not freed by one of the endings shows
    // here as a request that is refused or never admitted - and is reported, instead of leaving the
    // concurrent phase below waiting for a permit that nothing can release.
    let mut seq_requests = 0u64;
    let seq_problem: Option<String> = rt.block_on(tokio::task::unconstrained(async {
        use std::future::Future;
        let waker = futures::task::noop_waker();
        let mut cx = std::task::Context::from_waker(&waker);
        let mut s = layer.clone().layer(Gauged(sh.clone()));
        for p in 0..npeers.min(2) {
            let mut history: Vec<String> = Vec::new();
            for _ in 0..(2 * limit.min(8) + 6) {
                let id = next_id.fetch_add(1, Ordering::SeqCst);
                let kind = rng.gen_range(0..10);
                let (beh, cancel_after): (String, Option<u32>) = match kind {
                    0..=2 => (format!("ok:{}", rng.gen_range(0..8)), None),
                    3..=4 => (format!("err:{}", rng.gen_range(0..5)), None),
                    5 => ("ok:0".into(), Some(0)),
                    _ => (if kind % 2 == 0 { "ok:7".to_string() } else { "never".to_string() }, Some(rng.gen_range(1..5))),
                };
                stats[5].fetch_add(1, Ordering::Relaxed);
                seq_requests += 1;
                let before = sh.invoked.load(Ordering::SeqCst);
                let mut f = Box::pin(s.ready().await.unwrap().call(req(id, Some(p), &beh)));
                let polls = cancel_after.unwrap_or(32);
                let mut out = None;
                for _ in 0..polls {
                    if let std::task::Poll::Ready(r) = f.as_mut().poll(&mut cx) {
                        out = Some(r);
                        break;
                    }
                }
                let entered = sh.invoked.load(Ordering::SeqCst) > before;
                drop(f);
                history.push(match cancel_after {
                    Some(k) => format!("{beh} dropped after {k} polls"),
                    None => beh.clone(),
                });
                let refused = matches!(&out, Some(Err(st)) if st.status() == StatusCode::TooManyRequests);
                if refused || (polls > 0 && !entered) {
                    return Some(format!(
                        "peer {p} has no request executing, yet its next request is {} (limit {limit}, {}); endings so far: {}",
                        if refused { "refused with TooManyRequests".to_string() } else { format!("not admitted within {polls} polls") },
                        if block { "Block" } else { "ReturnError" },
                        history.join(", ")
                    ));
                }
                match (cancel_after, out) {
                    (_, Some(Ok(_))) => { stats[0].fetch_add(1, Ordering::Relaxed); }
                    (_, Some(Err(_))) => { stats[1].fetch_add(1, Ordering::Relaxed); }
                    (Some(_), None) => { stats[3].fetch_add(1, Ordering::Relaxed); }
                    (None, None) => return Some(format!("request '{beh}' of peer {p} entered the wrapped service but did not finish within {polls} polls")),
                }
            }
            // all of the peer's slots are usable again (with a large limit a few lost slots do not
            // stop a sequential client): `limit` never-finishing requests all get in
            let mut parked = Vec::new();
            for _ in 0..limit {
                let id = next_id.fetch_add(1, Ordering::SeqCst);
                stats[5].fetch_add(1, Ordering::Relaxed);
                stats[3].fetch_add(1, Ordering::Relaxed);
                let mut f = Box::pin(s.ready().await.unwrap().call(req(id, Some(p), "never")));
                for _ in 0..8 {
                    if f.as_mut().poll(&mut cx).is_ready() {
                        break;
                    }
                }
                parked.push(f);
            }
            let g = sh.gauge[p].load(Ordering::SeqCst);
            drop(parked);
            if g != limit as i64 {
                return Some(format!(
                    "peer {p} has no request executing, yet only {g} of its {limit} slots can be used ({}); endings so far: {}",
                    if block { "Block" } else { "ReturnError" },
                    history.join(", ")
                ));
            }
        }
        None
    }));
    if let Some(what) = seq_problem {
        drop(rt);
        let w = json!({"scenario": idx, "seed": seed, "limit": limit, "mode": if block {"Block"} else {"ReturnError"}, "phase": "sequential endings (hand-polled)", "problems": [what.clone()]});
        return ScenarioResult::violated(what, w).count("sequential_ending_requests", seq_requests);
    }
    rt.block_on(async {
        let mut hs = Vec::new();
        for t in 0..ntasks {
            // services are cloned the way Router / ServiceBuilder clone them; some tasks build
            // their service from a clone of the layer instead
            let mut svc = if t % 3 == 0 { layer.clone().layer(Gauged(sh.clone())) } else { svc.clone() };
            let (problems, stats, next_id) = (problems.clone(), stats.clone(), next_id.clone());
            let mut rng = StdRng::seed_from_u64(seed ^ (t as u64) << 32);
            hs.push(tokio::spawn(async move {
                for _ in 0..reqs_per_task {
                    let id = next_id.fetch_add(1, Ordering::SeqCst);
                    let p = rng.gen_range(0..npeers);
                    let kind = rng.gen_range(0..100);
                    stats[5].fetch_add(1, Ordering::Relaxed);
                    if kind < 3 {
                        // no PeerId attached
                        let r = svc.ready().await.unwrap().call(req(id, None, "ok:0")).await;
                        stats[4].fetch_add(1, Ordering::Relaxed);
                        match r {
                            Err(s) if s.status() == StatusCode::InternalServerError => {}
                            other => problems.lock().unwrap().push(format!("request without PeerId got {:?}", other.map(|r| r.status()).map_err(|s| s.status()))),
                        }
                        continue;
                    }
                    let beh = if kind < 20 { format!("err:{}", rng.gen_range(0..5)) } else { format!("ok:{}", rng.gen_range(0..8)) };
                    let fut = svc.ready().await.unwrap().call(req(id, Some(p), &beh));
                    if kind >= 80 {
                        // cancel at a random poll count: before the permit, while waiting, inside the call
                        let budget = rng.gen_range(0..6);
                        match (PollBudget { fut: Box::pin(fut), budget }).await {
                            None => {
                                stats[3].fetch_add(1, Ordering::Relaxed);
                            }
                            Some(Ok(_)) => {
                                stats[0].fetch_add(1, Ordering::Relaxed);
                            }
                            Some(Err(s)) if s.status() == StatusCode::TooManyRequests => {
                                stats[2].fetch_add(1, Ordering::Relaxed);
                            }
                            Some(Err(_)) => {
                                stats[1].fetch_add(1, Ordering::Relaxed);
                            }
                        }
                        continue;
                    }
                    match fut.await {
                        Ok(r) => {
                            stats[0].fetch_add(1, Ordering::Relaxed);
                            if r.body().as_ref() != id.to_string().as_bytes() {
                                problems.lock().unwrap().push(format!("request {id} got another request's response"));
                            }
                        }
                        Err(s) if s.status() == StatusCode::TooManyRequests => {
                            stats[2].fetch_add(1, Ordering::Relaxed);
                            if block {
                                problems.lock().unwrap().push("a request was refused in Block mode".into());
                            }
                        }
                        Err(s) if s.status() == StatusCode::BadRequest => {
                            stats[1].fetch_add(1, Ordering::Relaxed);
                        }
                        Err(s) => problems.lock().unwrap().push(format!("unexpected status {:?}", s.status())),
                    }
                    if rng.gen_range(0..8) == 0 {
                        tokio::task::yield_now().await;
                    }
                }
            }));
        }
        for h in hs {
            let _ = h.await;
        }
    });
    // ---- fresh-peer rounds: every round all tasks fire at one brand-new peer at the same moment
    // (the first requests of a peer are where its bookkeeping is created)
    let fresh_rounds = if super::miri() { 2 } else { 400 };
    let fresh_tasks = if super::miri() { 3usize } else { 8usize };
    let fresh_violation: Arc<Mutex<Option<String>>> = Default::default();
    rt.block_on(async {
        let barrier = Arc::new(tokio::sync::Barrier::new(fresh_tasks));
        let mut hs = Vec::new();
        for t in 0..fresh_tasks {
            let mut svc = if t % 2 == 0 { layer.clone().layer(Gauged(sh.clone())) } else { svc.clone() };
            let (barrier, next_id, stats) = (barrier.clone(), next_id.clone(), stats.clone());
            hs.push(tokio::spawn(async move {
                for r in 0..fresh_rounds {
                    let p = 100 + r; // never used before
                    barrier.wait().await;
                    let id = next_id.fetch_add(1, Ordering::SeqCst);
                    stats[5].fetch_add(1, Ordering::Relaxed);
                    match svc.ready().await.unwrap().call(req(id, Some(p), "ok:3")).await {
                        Ok(_) => { stats[0].fetch_add(1, Ordering::Relaxed); }
                        Err(s) if s.status() == StatusCode::TooManyRequests => { stats[2].fetch_add(1, Ordering::Relaxed); }
                        Err(_) => { stats[1].fetch_add(1, Ordering::Relaxed); }
                    }
                }
            }));
        }
        for h in hs {
            let _ = h.await;
        }
    });
    let _ = &fresh_violation;
    let mut problems = std::mem::take(&mut *problems.lock().unwrap());
    let over_before = sh.over.lock().unwrap().len();
    problems.extend(sh.over.lock().unwrap().iter().take(3).cloned());
    // refused requests never reached the service: invoked == ok + err + dropped-inside
    let (ok, err, refused, cancelled, missing, total) = (
        stats[0].load(Ordering::SeqCst), stats[1].load(Ordering::SeqCst), stats[2].load(Ordering::SeqCst),
        stats[3].load(Ordering::SeqCst), stats[4].load(Ordering::SeqCst), stats[5].load(Ordering::SeqCst),
    );
    let invoked = sh.invoked.load(Ordering::SeqCst);
    let inner_done = sh.finished_ok.load(Ordering::SeqCst) + sh.finished_err.load(Ordering::SeqCst) + sh.dropped.load(Ordering::SeqCst);
    if invoked != inner_done {
        problems.push(format!("{invoked} requests entered the wrapped service but {inner_done} left it"));
    }
    if invoked > ok + err + cancelled {
        problems.push(format!("wrapped service invoked {invoked} times for {} admitted requests", ok + err + cancelled));
    }
    // quiescent point: no leak
    for p in 0..GAUGES {
        let g = sh.gauge[p].load(Ordering::SeqCst);
        if g != 0 {
            problems.push(format!("gauge of peer {p} is {g} at quiescence"));
        }
    }
    let max_reached = (0..npeers).map(|p| sh.max_seen[p].load(Ordering::SeqCst)).max().unwrap_or(0);
    // capacity probe + isolation: saturate every peer with never-finishing requests
    let mut probe_ok = 0u64;
    if problems.is_empty() {
        // Decided on logical steps, not on a clock: at this quiescent point every permit has been
        // returned synchronously, so a request for a free slot enters the wrapped service within its
        // first polls.  The probe futures are polled by hand (no-op waker) a fixed number of times.
        // (tokio's cooperative budget - 128 operations per task poll - would make the 129th semaphore
        // acquisition of this one poll report Pending: the probe runs unconstrained)
        rt.block_on(tokio::task::unconstrained(async {
            use std::future::Future;
            let waker = futures::task::noop_waker();
            let mut cx = std::task::Context::from_waker(&waker);
            type Probe = std::pin::Pin<Box<dyn Future<Output = Result<(), anemo::rpc::Status>> + Send>>;
            let mut parked: Vec<Probe> = Vec::new();
            for p in 0..npeers {
                for _k in 0..limit {
                    let mut s = svc.clone();
                    let id = next_id.fetch_add(1, Ordering::SeqCst);
                    let mut f: Probe = Box::pin(async move { s.ready().await.unwrap().call(req(id, Some(p), "never")).await.map(|_| ()) });
                    for _ in 0..8 {
                        if f.as_mut().poll(&mut cx).is_ready() {
                            break;
                        }
                    }
                    parked.push(f);
                }
                // all `limit` must be inside (full capacity is available again)
                let g = sh.gauge[p].load(Ordering::SeqCst);
                if g != limit as i64 {
                    problems.push(format!("after the history only {g} of {limit} slots of peer {p} can be used (capacity leaked)"));
                    break;
                }
                // one more: refused (ReturnError) or kept waiting (Block)
                let mut s = svc.clone();
                let id = next_id.fetch_add(1, Ordering::SeqCst);
                let mut extra: std::pin::Pin<Box<dyn Future<Output = Result<anemo::Response<Bytes>, anemo::rpc::Status>> + Send>> =
                    Box::pin(async move { s.ready().await.unwrap().call(req(id, Some(p), "ok:0")).await });
                let mut out = None;
                for _ in 0..8 {
                    if let std::task::Poll::Ready(r) = extra.as_mut().poll(&mut cx) {
                        out = Some(r);
                        break;
                    }
                }
                match (block, out) {
                    (false, Some(Err(s))) if s.status() == StatusCode::TooManyRequests => {}
                    (true, None) => {}
                    (_, other) => problems.push(format!("request over the limit of saturated peer {p}: {:?}", other.map(|r| r.map(|x| x.status()).map_err(|s| s.status())))),
                }
                drop(extra);
                if sh.gauge[p].load(Ordering::SeqCst) > limit as i64 {
                    problems.push(format!("peer {p} exceeded its limit while saturated"));
                }
                probe_ok += 1;
                // isolation: the next peer still has all of its own slots (checked by the loop)
            }
            drop(parked);
        }));
        problems.extend(sh.over.lock().unwrap().iter().skip(over_before).take(3).cloned());
    }
    drop(rt);
    let sample = json!({"scenario": idx, "seed": seed, "limit": limit, "mode": if block {"Block"} else {"ReturnError"},
        "peers": npeers, "tasks": ntasks, "requests": total, "ok": ok, "inner_error": err, "refused": refused,
        "cancelled": cancelled, "missing_peer_id": missing, "max_gauge_reached": max_reached});
    let res = if !problems.is_empty() {
        let mut w = sample;
        w["problems"] = json!(problems);
        ScenarioResult::violated(problems[0].clone(), w)
    } else {
        ScenarioResult::held(format!(
            "mode={} limit={limit} reached_limit={} refused={} cancelled={}",
            if block { "Block" } else { "ReturnError" }, max_reached == limit as i64, refused > 0, cancelled > 0
        ))
        .with_sample(sample)
    };
    res.count("requests", total)
        .count("admitted_ok", ok)
        .count("inner_errors", err)
        .count("refused_too_many", refused)
        .count("cancelled", cancelled)
        .count("scenarios_reaching_limit", (max_reached == limit as i64) as u64)
        .count("capacity_probes", probe_ok)
        .count("fresh_peer_rounds", fresh_rounds as u64)
        .count("sequential_ending_requests", seq_requests)
}

pub fn run(ctx: &Ctx) -> i32 {
    let tier = ctx.tier;
    let cfg = RunCfg {
        property: "C18",
        tier,
        seed: ctx.seed,
        scenarios: if super::miri() { 2 } else { tier.pick(200, 3_000) },
        threads: 4,
        watchdog: Duration::from_secs(if super::miri() { 3_000 } else { 300 }),
        budget: Duration::from_secs(tier.pick(90, 900)),
        only: ctx.only,
    };
    let per_task = if super::miri() { 12 } else { tier.pick(1_500, 20_000) };
    let summary = runner::run_scenarios(&cfg, move |i, s| scenario(i, s, per_task));
    runner::finish(Report {
        property: "C18",
        tier,
        seed: ctx.seed,
        level: "exploration",
        rule: "scenario = InflightLimitLayer(limit in {1,2,3,8,64}, Block|ReturnError) around a gauged service on a 4-worker tokio runtime; first a sequential, hand-polled phase (no clock): one request of one peer at a time ending in every possible way (ok/error after 0-7 yields, dropped unpolled, dropped inside the wrapped service), after each of which the next request must enter the wrapped service within its first polls and must not be refused, and at the end of which all `limit` slots of the peer must be usable; then 4-16 tasks share clones of the layered service (and services built from clones of the layer) and issue 1.5k (thorough 20k) requests each for 1-6 peers: finish after 0-7 yields, fail, or get cancelled after 0-5 polls (before the permit, while waiting for it, inside the call); the gauge is one fetch_add in the synchronous part of the inner call() whose return value is the observation (<= limit), a guard decrements on completion/error/drop; at quiescence gauges are 0; 400 fresh-peer rounds make 8 tasks fire at one brand-new peer at the same moment (barrier) so that the creation of a peer's bookkeeping is itself raced; a probe fills every peer with exactly `limit` never-finishing requests (the next is refused / keeps waiting) which also shows per-peer isolation; distinct by (mode, limit, limit reached, refusals seen, cancellations seen) The capacity probe at the quiescent point is decided on logical steps: probe futures are polled by hand (no-op waker, unconstrained) a fixed number of times, no clock.".into(),
        assumptions: vec!["interleavings are those a 4-worker runtime produces; the over-limit probe waits 30 ms of real time".into()],
        summary,
        extra: Default::default(),
        exhaustive: None,
        min_signatures: 8,
        required_counters: vec!["admitted_ok", "inner_errors", "refused_too_many", "cancelled", "scenarios_reaching_limit", "capacity_probes", "fresh_peer_rounds", "sequential_ending_requests"],
    })
}
