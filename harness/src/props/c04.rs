//! C04 – at most one connection per peer; events are an exact change log.

use super::{history, Ctx};
use crate::runner::{self, Report, RunCfg};
use std::time::Duration;

pub fn run(ctx: &Ctx) -> i32 {
    let tier = ctx.tier;
    let cfg = RunCfg {
        property: "C04",
        tier,
        seed: ctx.seed,
        scenarios: tier.pick(4_000, 80_000),
        threads: super::threads(),
        watchdog: Duration::from_secs(180),
        budget: Duration::from_secs(tier.pick(100, 1000)),
        only: ctx.only,
    };
    let max_steps = tier.pick(60, 300);
    // direct drive: the sequence space of each shape is split over `stride` scenarios
    let (max_len, stride) = tier.pick((6usize, 16usize), (7usize, 64usize));
    let n_exh = 4 * stride;
    let n_stress = tier.pick(4, 32);
    let n_race = tier.pick(8, 64);
    let n_real = tier.pick(2, 12);
    let real_ms = tier.pick(2_500, 15_000);
    let race_rounds = tier.pick(60_000, 400_000);
    let stress_ops = tier.pick(20_000, 200_000);
    let mut summary = runner::run_scenarios(&cfg, move |i, s| {
        if i < n_exh {
            super::direct::c04_exhaustive(i, s, max_len, stride)
        } else if i < n_exh + n_stress {
            super::direct::c04_stress(i, s, stress_ops)
        } else if i < n_exh + n_stress + n_race {
            super::direct::c04_race(i, s, race_rounds)
        } else if i < n_exh + n_stress + n_race + n_real {
            super::realnet::scenario(i, s, real_ms, super::realnet::Judge::ChangeLog)
        } else {
            history::scenario(i, s, history::Mode::C04, max_steps)
        }
    });
    let sig_keys: Vec<String> = summary.counters.keys().filter(|k| k.starts_with("sig:")).cloned().collect();
    for k in sig_keys {
        summary.counters.remove(&k);
        summary.signatures.insert(k[4..].to_owned());
    }
    let mut extra: std::collections::BTreeMap<String, serde_json::Value> = Default::default();
    let in_space = summary.counters.get("direct_sequences_in_space").copied().unwrap_or(0);
    let run = summary.counters.get("direct_sequences_run").copied().unwrap_or(0);
    extra.insert(
        "exhaustive_subspace".into(),
        serde_json::json!({"what": format!("all operation sequences up to length {max_len} on 4 connection shapes (direct drive)"), "sequences_in_space": in_space, "sequences_run": run, "complete": in_space == run && run > 0}),
    );
    runner::finish(Report {
        property: "C04",
        tier,
        seed: ctx.seed,
        level: "exploration",
        rule: "three kinds. (1) direct drive, exhaustive: a stand-alone active-peer set fed with real connections (4 shapes: in+out, in+in, in+out+other peer, in+in+out) and EVERY sequence up to length 6 (thorough 7) of {add each connection once, handler exit of an added connection, disconnect of a peer (once per peer), one subscribe}; after every step listing, len, closed-ness of every connection and the entry's stable id are compared with a reference model (re-implemented from the documented rule), at the end both subscribers' event streams with the model's change log. (2) stress: 8 writer threads x 20k (thorough 200k) random add/exit/disconnect/list/subscribe on one set while 4 subscriber threads run drain-list-drain: the listing must equal a state reached by replaying the events drained so far. (3) races: from a seeded state two operations (add / handler exit / disconnect, with extra weight on 'a replacement racing the exit of the replaced connection') run on two threads released together, 30k (thorough 300k) rounds per scenario; entry, return values and emitted events must equal one of the two sequential orders of the reference model. (4) E2: whole Networks on UDP loopback and a 6-worker runtime with fast dial/disconnect churn and RPC load while two subscriber threads per network run drain-list-drain against Network::subscribe()/peers(). (5) simnet histories (as C09) plus an adversary opening duplicate connections with one identity; after every step each node's synchronous subscription is drained and snapshot+events must equal peers() exactly, events must alternate per peer, listings have no duplicates; at quiescent points the number of the adversary's un-closed connections to a node must be 1 iff the node lists it, never >1".into(),
        assumptions: vec!["'at every instant' is sampled after every harness step".into()],
        summary,
        extra,
        exhaustive: None,
        min_signatures: 10,
        required_counters: vec!["realnet_drain_list_drain_samples", "realnet_events", "race_rounds", "race_rounds_with_distinguishable_orders", "direct_sequences_run", "direct_ops_checked", "stress_drain_list_drain_samples", "stress_events_replayed", "listing_samples", "events_drained", "lost_peer_events", "adversary_connections_admitted", "adversary_liveness_checks"],
    })
}
