//! C04 – at most one connection per peer; events are an exact change log.

use super::{history, Ctx};
use crate::runner::{self, Report, RunCfg};
use std::time::Duration;

pub fn run(ctx: &Ctx) -> i32 {
    let tier = ctx.tier;
    let cfg = RunCfg {
        property: "C04",
        tier,
        seed: ctx.seed,
        scenarios: tier.pick(800, 30_000),
        threads: super::threads(),
        watchdog: Duration::from_secs(180),
        budget: Duration::from_secs(tier.pick(100, 1000)),
        only: ctx.only,
    };
    let max_steps = tier.pick(60, 300);
    let summary = runner::run_scenarios(&cfg, move |i, s| {
        history::scenario(i, s, history::Mode::C04, max_steps)
    });
    runner::finish(Report {
        property: "C04",
        tier,
        seed: ctx.seed,
        level: "exploration",
        rule: "simnet histories (as C09) plus an adversary opening duplicate connections with one identity; after every step each node's synchronous subscription is drained and snapshot+events must equal peers() exactly, events must alternate per peer, listings have no duplicates; at quiescent points the number of the adversary's un-closed connections to a node must be 1 iff the node lists it, never >1".into(),
        assumptions: vec!["'at every instant' is sampled after every harness step".into()],
        summary,
        extra: Default::default(),
        exhaustive: None,
        min_signatures: 10,
        required_counters: vec!["listing_samples", "events_drained", "lost_peer_events", "adversary_connections_admitted", "adversary_liveness_checks"],
    })
}
