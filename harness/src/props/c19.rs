//! C19 – per-peer rate limit admits no more than the quota (decided against the wall clock; the
//! oracle's window over-estimates, so scheduling delays can only make it more lenient).

use super::Ctx;
use crate::runner::{self, Report, RunCfg, ScenarioResult};
use anemo::{rpc::Status, types::response::StatusCode, PeerId, Request, Response};
use anemo_tower::rate_limit::{RateLimitLayer, WaitMode, WAIT_NANOS_HEADER};
use bytes::Bytes;
use futures::future::BoxFuture;
use rand::{rngs::StdRng, Rng, SeedableRng};
use serde_json::json;
use std::{
    num::NonZeroU32,
    sync::{Arc, Mutex},
    task::{Context, Poll},
    time::{Duration, Instant},
};
use tower::{Layer, Service, ServiceExt};

#[derive(Clone, Default)]
struct Admit(Arc<Mutex<Vec<(usize, u64, Instant)>>>); // (peer, id, t_admit)

impl Service<Request<Bytes>> for Admit {
    type Response = Response<Bytes>;
    type Error = Status;
    type Future = BoxFuture<'static, Result<Response<Bytes>, Status>>;
    fn poll_ready(&mut self, _: &mut Context<'_>) -> Poll<Result<(), Status>> {
        Poll::Ready(Ok(()))
    }
    fn call(&mut self, req: Request<Bytes>) -> Self::Future {
        let t = Instant::now();
        let peer = req.peer_id().map(|p| p.0[0] as usize).unwrap_or(255);
        let id: u64 = req.headers().get("id").and_then(|s| s.parse().ok()).unwrap_or(0);
        self.0.lock().unwrap().push((peer, id, t));
        Box::pin(async move { Ok(Response::new(Bytes::from(id.to_string()))) })
    }
}

fn pid(p: usize) -> PeerId {
    let mut b = [0u8; 32];
    b[0] = p as u8;
    b[30] = 0x19;
    PeerId(b)
}

fn req(id: u64, peer: usize) -> Request<Bytes> {
    Request::new(Bytes::new()).with_header("id", id.to_string()).with_extension(pid(peer))
}

/// GCRA bound for one phase: the k-th admission (1-based) at t_k satisfies
/// k <= B + floor(((t_k - T_P)(1+1e-3) + 1ms)/tau).
fn check_bound(admits: &[(usize, u64, Instant)], t_p: Instant, burst: u32, tau: Duration, npeers: usize) -> (i64, String) {
    let mut worst = (0i64, String::new());
    for p in 0..npeers {
        let mut ts: Vec<Instant> = admits.iter().filter(|a| a.0 == p && a.2 >= t_p).map(|a| a.2).collect();
        ts.sort();
        for (i, t) in ts.iter().enumerate() {
            let k = i as u64 + 1;
            let w = t.duration_since(t_p).as_nanos() as f64 * 1.001 + 1_000_000.0;
            let allowed = burst as u64 + (w / tau.as_nanos() as f64).floor() as u64;
            let excess = k as i64 - allowed as i64;
            if excess > worst.0 {
                worst = (excess, format!(
                    "peer {p}: admission #{k} happened {:.3} ms after the phase start; burst {burst} + replenishment over that window allows {allowed}",
                    t.duration_since(t_p).as_secs_f64() * 1e3
                ));
            }
        }
    }
    worst
}

pub fn scenario(idx: usize, seed: u64, phase_ms: u64) -> ScenarioResult {
    let mut rng = StdRng::seed_from_u64(seed ^ 0xc19);
    let tau = Duration::from_millis(*[2u64, 10, 50].get(idx % 3).unwrap());
    let burst = *[1u32, 2, 5, 20].get((idx / 3) % 4).unwrap();
    let block = (idx / 12) % 2 == 1;
    let npeers = rng.gen_range(1..=5usize);
    let callers = *[1usize, 2, 8, 32].get(rng.gen_range(0..4)).unwrap();
    let quota = governor::Quota::with_period(tau).unwrap().allow_burst(NonZeroU32::new(burst).unwrap());
    let layer = RateLimitLayer::new(quota, if block { WaitMode::Block } else { WaitMode::ReturnError });
    let admit = Admit::default();
    let svc = layer.layer(admit.clone());
    let rt = tokio::runtime::Builder::new_multi_thread().worker_threads(4).enable_all().build().unwrap();
    let mut problems: Vec<String> = Vec::new();
    let mut known_zero = 0u64;
    let mut n_hammered = 0u64;
    let mut plus_one: Option<String> = None;
    let (mut n_admit, mut n_refused, mut n_hint_checked, mut n_fresh) = (0u64, 0u64, 0u64, 0u64);
    let next_id = Arc::new(std::sync::atomic::AtomicU64::new(1));

    // ---- phase 1: saturating, concurrent callers
    let t_p = Instant::now();
    let refused_log: Arc<Mutex<Vec<(u64, Option<String>, StatusCode)>>> = Default::default();
    let block_timeouts = Arc::new(std::sync::atomic::AtomicU64::new(0));
    rt.block_on(async {
        let mut hs = Vec::new();
        let per_caller: u64 = if block { (phase_ms * 1_000_000 / tau.as_nanos() as u64 / callers as u64).max(2) + burst as u64 } else { u64::MAX };
        for c in 0..callers {
            let mut svc = if c % 2 == 0 { svc.clone() } else { layer.clone().layer(admit.clone()) };
            let (next_id, refused_log, block_timeouts) = (next_id.clone(), refused_log.clone(), block_timeouts.clone());
            let mut rng = StdRng::seed_from_u64(seed ^ ((c as u64) << 20));
            hs.push(tokio::spawn(async move {
                let mut sent = 0u64;
                while t_p.elapsed() < Duration::from_millis(phase_ms) && sent < per_caller {
                    sent += 1;
                    let id = next_id.fetch_add(1, std::sync::atomic::Ordering::SeqCst);
                    let p = rng.gen_range(0..npeers);
                    let fut = svc.ready().await.unwrap().call(req(id, p));
                    let r = if block {
                        match tokio::time::timeout(Duration::from_secs(20), fut).await {
                            Ok(r) => r,
                            Err(_) => {
                                block_timeouts.fetch_add(1, std::sync::atomic::Ordering::SeqCst);
                                continue;
                            }
                        }
                    } else {
                        fut.await
                    };
                    if let Err(s) = r {
                        refused_log.lock().unwrap().push((id, s.headers().get(WAIT_NANOS_HEADER).cloned(), s.status()));
                        if rng.gen_range(0..4) == 0 {
                            tokio::time::sleep(Duration::from_micros(rng.gen_range(0..2_000))).await;
                        } else {
                            tokio::task::yield_now().await;
                        }
                    }
                }
            }));
        }
        for h in hs {
            let _ = h.await;
        }
    });
    {
        let a = admit.0.lock().unwrap();
        n_admit += a.len() as u64;
        let (excess, what) = check_bound(&a, t_p, burst, tau, npeers);
        if excess > 0 {
            problems.push(what);
        }
        let rl = refused_log.lock().unwrap();
        n_refused += rl.len() as u64;
        let admitted_ids: std::collections::HashSet<u64> = a.iter().map(|x| x.1).collect();
        for (id, hint, st) in rl.iter() {
            if block {
                problems.push(format!("request {id} was refused with {st:?} in Block mode"));
                break;
            }
            if *st != StatusCode::TooManyRequests {
                problems.push(format!("refused request {id} has status {st:?}"));
                break;
            }
            match hint.as_ref().map(|h| h.parse::<u128>()) {
                Some(Ok(_)) => {}
                other => {
                    problems.push(format!("refused request {id} carries wait-nanos {:?}", other));
                    break;
                }
            }
            if admitted_ids.contains(id) {
                problems.push(format!("refused request {id} reached the wrapped service"));
                break;
            }
        }
    }
    if block_timeouts.load(std::sync::atomic::Ordering::SeqCst) > 0 && problems.is_empty() {
        drop(rt);
        return ScenarioResult::inconclusive("a Block-mode request was not admitted within 20 s of wall time");
    }
    // ---- phase 2 (ReturnError): single sequential caller, hint validity
    if !block && problems.is_empty() {
        let mut svc2 = svc.clone();
        let admit2 = admit.clone();
        let next_id = next_id.clone();
        let hammer = tau == Duration::from_millis(2);
        let out: (Vec<String>, u64, u64, i64, String, u64) = rt.block_on(async move {
            let mut probs = Vec::new();
            let mut zero = 0u64;
            let mut checked = 0u64;
            tokio::time::sleep(tau * (burst + 1)).await; // pause between phases
            let t2 = Instant::now();
            let p = 0usize;
            let mut rounds = 0;
            while rounds < 25 && t2.elapsed() < Duration::from_millis(1_500) {
                let id = next_id.fetch_add(1, std::sync::atomic::Ordering::SeqCst);
                match svc2.ready().await.unwrap().call(req(id, p)).await {
                    Ok(_) => {}
                    Err(s) => {
                        rounds += 1;
                        checked += 1;
                        let hint = s.headers().get(WAIT_NANOS_HEADER).and_then(|h| h.parse::<u64>().ok());
                        let Some(w) = hint else {
                            probs.push(format!("refusal without a usable wait-nanos header: {:?}", s.headers().get(WAIT_NANOS_HEADER)));
                            break;
                        };
                        let full_refill = tau.as_nanos() as u64 * burst as u64 + 1_000_000;
                        if w > full_refill {
                            probs.push(format!("wait-nanos hint {w} exceeds a full refill ({full_refill} ns)"));
                            break;
                        }
                        if w == 0 {
                            // "positive hint" as written is violated; distinguish the benign race
                            // (the wait elapsed between decision and clock read: an immediate retry
                            // is admitted) from a hint that is simply wrong
                            let id2 = next_id.fetch_add(1, std::sync::atomic::Ordering::SeqCst);
                            match svc2.ready().await.unwrap().call(req(id2, p)).await {
                                Ok(_) => zero += 1,
                                Err(_) => {
                                    probs.push("wait-nanos hint is 0 but an immediate retry is refused".into());
                                    break;
                                }
                            }
                            continue;
                        }
                        // nobody else uses this peer now: after sleeping the hint the retry must pass
                        tokio::time::sleep(Duration::from_nanos(w) + Duration::from_millis(1)).await;
                        let id2 = next_id.fetch_add(1, std::sync::atomic::Ordering::SeqCst);
                        if let Err(s2) = svc2.ready().await.unwrap().call(req(id2, p)).await {
                            probs.push(format!(
                                "after waiting the advertised {w} ns (+1 ms) the retry was refused again (new hint {:?})",
                                s2.headers().get(WAIT_NANOS_HEADER)
                            ));
                            break;
                        }
                    }
                }
            }
            let (excess, what) = {
                let a = admit2.0.lock().unwrap();
                check_bound(&a, t2, burst, tau, 1)
            };
            // hammer: many sequential refusals, to catch hints that are not positive
            let mut hammered = 0u64;
            if hammer && probs.is_empty() {
                let p = 150usize;
                let th = Instant::now();
                while hammered < 400_000 && th.elapsed() < Duration::from_millis(2_500) {
                    let id = next_id.fetch_add(1, std::sync::atomic::Ordering::SeqCst);
                    if let Err(s) = svc2.ready().await.unwrap().call(req(id, p)).await {
                        hammered += 1;
                        match s.headers().get(WAIT_NANOS_HEADER).and_then(|h| h.parse::<u64>().ok()) {
                            Some(0) => {
                                let id2 = next_id.fetch_add(1, std::sync::atomic::Ordering::SeqCst);
                                match svc2.ready().await.unwrap().call(req(id2, p)).await {
                                    Ok(_) => zero += 1,
                                    Err(_) => {
                                        probs.push("wait-nanos hint is 0 but an immediate retry is refused".into());
                                        break;
                                    }
                                }
                            }
                            Some(_) => {}
                            None => {
                                probs.push("refusal without a usable wait-nanos header".into());
                                break;
                            }
                        }
                    }
                }
            }
            (probs, zero, checked, excess, what, hammered)
        });
        problems.extend(out.0);
        known_zero += out.1;
        n_hint_checked += out.2;
        n_hammered += out.5;
        if out.3 > 1 {
            problems.push(format!("phase after an idle pause: {}", out.4));
        } else if out.3 == 1 {
            plus_one = Some(out.4.clone());
        }
        // ---- per-peer: a fresh peer gets its full burst while others are exhausted
        let mut svc3 = svc.clone();
        let fresh_peer = 200usize;
        let got: u32 = rt.block_on(async move {
            let mut ok = 0;
            for i in 0..burst {
                let r = svc3.ready().await.unwrap().call(req(1_000_000 + i as u64, fresh_peer)).await;
                if r.is_ok() {
                    ok += 1;
                }
            }
            ok
        });
        n_fresh += 1;
        if got != burst {
            problems.push(format!("a fresh peer had only {got} of its first {burst} requests admitted while other peers were exhausted"));
        }
        // ---- per-peer means per IDENTITY: a peer whose id differs from an exhausted peer's in a
        // single byte (the last, one in the middle, the ninth, the second) still has its own quota
        for pos in [31usize, 17, 8, 1] {
            let mut svc4 = svc.clone();
            let got: u32 = rt.block_on(async move {
                // exhaust peer 0 right now ...
                for i in 0..burst + 2 {
                    let _ = svc4.ready().await.unwrap().call(req(2_000_000 + i as u64, 0)).await;
                }
                // ... and let its near-twin use its own first burst at once
                let mut twin = pid(0);
                twin.0[pos] ^= 0x01;
                let mut ok = 0;
                for i in 0..burst {
                    let r = Request::new(Bytes::new()).with_header("id", (3_000_000 + i as u64).to_string()).with_extension(twin);
                    if svc4.ready().await.unwrap().call(r).await.is_ok() {
                        ok += 1;
                    }
                }
                ok
            });
            n_fresh += 1;
            if got != burst {
                problems.push(format!("a peer whose identity differs from an exhausted peer's only in byte {pos} had {got} of its first {burst} requests admitted: quotas are not kept per identity"));
            }
        }
    }
    drop(rt);
    let sample = json!({"scenario": idx, "seed": seed, "tau_ms": tau.as_millis() as u64, "burst": burst,
        "mode": if block {"Block"} else {"ReturnError"}, "peers": npeers, "concurrent_callers": callers,
        "admitted": n_admit, "refused": n_refused, "hints_checked": n_hint_checked, "zero_hints": known_zero});
    let res = if !problems.is_empty() {
        let mut w = sample;
        w["problems"] = json!(problems);
        ScenarioResult::violated(problems[0].clone(), w)
    } else {
        ScenarioResult::held(format!("tau={}ms B={burst} mode={} callers={callers} refused={}", tau.as_millis(), if block { "Block" } else { "ReturnError" }, n_refused > 0))
            .with_sample(sample)
    };
    let mut res = res;
    if known_zero > 0 {
        res.note(
            "C19:zero-wait-hint",
            known_zero,
            "refusals carried wait-nanos = 0 (the wait elapsed between the limiter's decision and the clock read; the immediate retry was admitted)",
        );
    }
    if let Some(w) = plus_one {
        res.note("C19:burst-plus-one-after-idle", 1, format!("after an idle pause burst+1 requests are admitted at once: {w}"));
    }
    res.count("admissions_observed", n_admit)
        .count("refusals_observed", n_refused)
        .count("hint_validity_checks", n_hint_checked)
        .count("fresh_peer_checks", n_fresh)
        .count("block_mode_scenarios", block as u64)
        .count("sequential_refusals_hammered", n_hammered)
}

pub fn run(ctx: &Ctx) -> i32 {
    let tier = ctx.tier;
    let cfg = RunCfg {
        property: "C19",
        tier,
        seed: ctx.seed,
        scenarios: tier.pick(48, 720),
        threads: 4,
        watchdog: Duration::from_secs(120),
        budget: Duration::from_secs(tier.pick(120, 1200)),
        only: ctx.only,
    };
    let phase_ms = tier.pick(300, 1_200);
    let summary = runner::run_scenarios(&cfg, move |i, s| scenario(i, s, phase_ms));
    runner::finish(Report {
        property: "C19",
        tier,
        seed: ctx.seed,
        level: "exploration",
        rule: "scenario = RateLimitLayer(quota burst B in {1,2,5,20}, replenish interval tau in {2,10,50} ms, Block|ReturnError) around a service that timestamps every admission in the synchronous part of call(); phase 1: 1-32 concurrent callers over 1-5 peers saturate the limiter for 0.3 s (thorough 1.2 s) on a 4-worker runtime, oracle: the k-th admission of a peer at t_k satisfies k <= B + floor(((t_k - T_P)*1.001 + 1 ms)/tau) (window over-estimated, hence sound under scheduling delay), refusals are TooManyRequests with a parsable wait-nanos and never reach the service, Block never refuses; phase 2 (ReturnError): one sequential caller, every refusal's hint w satisfies 0 < w <= B*tau + 1 ms and a retry after sleeping w + 1 ms is admitted; a fresh peer gets its full burst while others are exhausted; distinct by (tau, B, mode, callers, refusals seen) Per-identity: peers whose id differs from an exhausted peer's in a single byte (last, middle, ninth, second) must still get their own first burst.".into(),
        assumptions: vec!["decided against the wall clock (governor's quanta clock cannot be virtualised); under-admission is only caught by the fresh-peer and hint-validity clauses".into()],
        summary,
        extra: Default::default(),
        exhaustive: None,
        min_signatures: 10,
        required_counters: vec!["admissions_observed", "refusals_observed", "hint_validity_checks", "fresh_peer_checks", "block_mode_scenarios"],
    })
}
