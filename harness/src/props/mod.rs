use crate::runner::Tier;

pub mod c01;
pub mod c02;
pub mod c03;
pub mod c04;
pub mod c05;
pub mod c06;
pub mod c07;
pub mod c08;
pub mod c08_trial;
pub mod c09;
pub mod c10;
pub mod c11;
pub mod c12;
pub mod c13;
pub mod c14;
pub mod c15;
pub mod c16;
pub mod c17;
pub mod c18;
pub mod c19;
pub mod c20;
pub mod direct;
pub mod history;
pub mod realnet;

pub struct Ctx {
    pub tier: Tier,
    pub seed: u64,
    /// run only this scenario index (replay)
    pub only: Option<usize>,
    pub args: Vec<String>,
}

/// Set when the harness itself runs under Miri (tiny workloads, one worker thread).
pub fn miri() -> bool {
    cfg!(miri) || std::env::var("VERIF_MIRI").is_ok()
}

pub fn threads() -> usize {
    if miri() {
        return 1;
    }
    std::env::var("VERIF_THREADS")
        .ok()
        .and_then(|s| s.parse().ok())
        .unwrap_or_else(|| {
            std::thread::available_parallelism()
                .map(|n| n.get())
                .unwrap_or(8)
                .min(16)
        })
}

pub fn dispatch(prop: &str, tier: Tier, seed: u64, only: Option<usize>, args: &[String]) -> i32 {
    let ctx = Ctx {
        tier,
        seed,
        only,
        args: args.to_vec(),
    };
    match prop {
        "C01" => c01::run(&ctx),
        "C02" => c02::run(&ctx),
        "C03" => c03::run(&ctx),
        "C04" => c04::run(&ctx),
        "C05" => c05::run(&ctx),
        "C06" => c06::run(&ctx),
        "C07" => c07::run(&ctx),
        "C08" => c08::run(&ctx),
        "C09" => c09::run(&ctx),
        "C10" => c10::run(&ctx),
        "C11" => c11::run(&ctx),
        "C12" => c12::run(&ctx),
        "C13" => c13::run(&ctx),
        "C14" => c14::run(&ctx),
        "C15" => c15::run(&ctx),
        "C16" => c16::run(&ctx),
        "C17" => c17::run(&ctx),
        "C18" => c18::run(&ctx),
        "C19" => c19::run(&ctx),
        "C20" => c20::run(&ctx),
        _ => {
            eprintln!("unknown property {prop}");
            2
        }
    }
}
