//! Direct drive of the active-peer set with real connections (hook H5): exhaustive orderings for
//! C04/C05 and a multi-threaded stress with concurrent subscribers for C04.

use crate::runner::ScenarioResult;
use anemo::{
    types::{DisconnectReason, PeerEvent},
    verif::peers::{tie_break, ActivePeersHandle, Conn, RawEndpoint},
    ConnectionOrigin, PeerId,
};
use rand::{rngs::StdRng, Rng, SeedableRng};
use serde_json::json;
use std::{
    collections::{BTreeMap, BTreeSet},
    sync::{
        atomic::{AtomicBool, AtomicU64, Ordering},
        Arc, Mutex,
    },
    time::Duration,
};


/// Every reason a connection's handler can report for its end: whatever the reason, the end of a
/// connection that is no longer the registered one must change nothing.
pub const END_REASONS: [DisconnectReason; 7] = [
    DisconnectReason::ConnectionClosed,
    DisconnectReason::TimedOut,
    DisconnectReason::Reset,
    DisconnectReason::LocallyClosed,
    DisconnectReason::ApplicationClosed,
    DisconnectReason::TransportError,
    DisconnectReason::VersionMismatch,
];
pub fn end_reason(n: usize) -> DisconnectReason {
    END_REASONS[n % END_REASONS.len()].clone()
}

fn rt() -> tokio::runtime::Runtime {
    tokio::runtime::Builder::new_current_thread().enable_all().build().unwrap()
}

fn endpoint(key: [u8; 32]) -> RawEndpoint {
    let sock = std::net::UdpSocket::bind("127.0.0.1:0").unwrap();
    RawEndpoint::new(key, "verif", sock).unwrap()
}

/// One real connection dialed by `d` to `l`: (handle at the dialer, handle at the listener).
async fn connect(d: &RawEndpoint, l: &RawEndpoint) -> Option<(Conn, Conn)> {
    let la = l.local_addr();
    let (a, b) = tokio::join!(
        tokio::time::timeout(Duration::from_secs(5), d.connect(la)),
        tokio::time::timeout(Duration::from_secs(5), l.accept())
    );
    match (a, b) {
        (Ok(Ok(x)), Ok(Some(Ok(y)))) => Some((x, y)),
        _ => None,
    }
}

/// The documented rule, re-implemented: same direction -> the newer connection replaces the
/// older; opposite directions -> keep the one dialed by the greater PeerId.
fn ref_keep_new(own: &PeerId, remote: &PeerId, existing_inbound: bool, new_inbound: bool) -> bool {
    match (existing_inbound, new_inbound) {
        (true, true) | (false, false) => true,
        // existing inbound (remote dialed), new outbound (we dialed): keep new iff we are greater
        (true, false) => own > remote,
        // existing outbound (we dialed), new inbound (remote dialed): keep new iff remote is greater
        (false, true) => remote > own,
    }
}

fn is_inbound(o: ConnectionOrigin) -> bool {
    o == ConnectionOrigin::Inbound
}

// ------------------------------------------------------------------------------------------------
// C05: the pure decision

pub fn c05_pure(idx: usize, seed: u64, n: usize) -> ScenarioResult {
    let mut rng = StdRng::seed_from_u64(seed ^ 0xc05d);
    let (inb, out) = (ConnectionOrigin::Inbound, ConnectionOrigin::Outbound);
    let mut problems = Vec::new();
    let mut checks = 0u64;
    for i in 0..n {
        let mut a = [0u8; 32];
        let mut b = [0u8; 32];
        rng.fill(&mut a);
        rng.fill(&mut b);
        match i % 6 {
            0 => {
                b = a;
                b[31] ^= 1; // differ only in the last bit
            }
            1 => {
                b = a;
                b[0] ^= 0x80; // differ only in the first bit
            }
            2 => {
                a = [0; 32];
                b = [0xff; 32];
            }
            _ => {}
        }
        if a == b {
            continue;
        }
        let (pa, pb) = (PeerId(a), PeerId(b));
        // c1 = dialed by A (outbound at A, inbound at B); c2 = dialed by B.
        // which connection does each side keep, for both arrival orders?
        let a_keeps_c1_when_c1_first = !tie_break(&pa, &pb, out, inb);
        let a_keeps_c1_when_c2_first = tie_break(&pa, &pb, inb, out);
        let b_keeps_c1_when_c1_first = !tie_break(&pb, &pa, inb, out);
        let b_keeps_c1_when_c2_first = tie_break(&pb, &pa, out, inb);
        checks += 4;
        let all = [a_keeps_c1_when_c1_first, a_keeps_c1_when_c2_first, b_keeps_c1_when_c1_first, b_keeps_c1_when_c2_first];
        if !all.iter().all(|x| *x == all[0]) {
            problems.push(format!(
                "ids {} / {}: which dial survives depends on side or arrival order: A(c1 first)={} A(c2 first)={} B(c1 first)={} B(c2 first)={} (true = A's dial)",
                hex::encode(&a[..4]), hex::encode(&b[..4]), all[0], all[1], all[2], all[3]
            ));
            break;
        }
        // same direction: the newer one replaces
        if !tie_break(&pa, &pb, inb, inb) || !tie_break(&pa, &pb, out, out) {
            problems.push("a second connection in the same direction does not replace the first".into());
            break;
        }
        // agrees with the documented rule (dialed by the greater id survives)
        for (e, nw) in [(inb, out), (out, inb)] {
            checks += 1;
            if tie_break(&pa, &pb, e, nw) != ref_keep_new(&pa, &pb, is_inbound(e), is_inbound(nw)) {
                problems.push(format!("decision for own {} remote {} existing {:?} new {:?} differs from 'keep the connection dialed by the greater PeerId'", hex::encode(&a[..4]), hex::encode(&b[..4]), e, nw));
            }
        }
        if !problems.is_empty() {
            break;
        }
    }
    let _ = idx;
    let r = if problems.is_empty() {
        ScenarioResult::held("pure tie-break").with_sample(json!({"kind": "pure decision function", "identity_pairs": n}))
    } else {
        ScenarioResult::violated(problems[0].clone(), json!({"problems": problems}))
    };
    r.count("pure_decisions_checked", checks)
}

// ------------------------------------------------------------------------------------------------
// C05: every interleaving of the four registrations and the handler exits, real connections

fn permutations(n: usize) -> Vec<Vec<usize>> {
    fn rec(cur: &mut Vec<usize>, used: &mut Vec<bool>, out: &mut Vec<Vec<usize>>) {
        if cur.len() == used.len() {
            out.push(cur.clone());
            return;
        }
        for i in 0..used.len() {
            if !used[i] {
                used[i] = true;
                cur.push(i);
                rec(cur, used, out);
                cur.pop();
                used[i] = false;
            }
        }
    }
    let mut out = Vec::new();
    rec(&mut Vec::new(), &mut vec![false; n], &mut out);
    out
}

pub fn c05_direct(idx: usize, seed: u64) -> ScenarioResult {
    let mut rng = StdRng::seed_from_u64(seed ^ 0xc05e);
    let mut ka = [0u8; 32];
    let mut kb = [0u8; 32];
    rng.fill(&mut ka);
    rng.fill(&mut kb);
    if (crate::world::peer_id_of_key(&ka) > crate::world::peer_id_of_key(&kb)) != (idx % 2 == 0) {
        std::mem::swap(&mut ka, &mut kb);
    }
    let rt = rt();
    let res = rt.block_on(async {
        let ea = endpoint(ka);
        let eb = endpoint(kb);
        let (ida, idb) = (ea.peer_id(), eb.peer_id());
        let mut problems = Vec::new();
        let mut n_orders = 0u64;
        let mut survivors: BTreeSet<&'static str> = BTreeSet::new();
        // ops: 0 = A.add(c1 at A), 1 = A.add(c2 at A), 2 = B.add(c1 at B), 3 = B.add(c2 at B)
        for order in permutations(4) {
            let Some((c1a, c1b)) = connect(&ea, &eb).await else { return ScenarioResult::inconclusive("handshake failed") };
            let Some((c2b, c2a)) = connect(&eb, &ea).await else { return ScenarioResult::inconclusive("handshake failed") };
            let apa = ActivePeersHandle::new(64);
            let apb = ActivePeersHandle::new(64);
            let (mut rxa, _) = apa.subscribe();
            let (mut rxb, _) = apb.subscribe();
            for op in &order {
                match op {
                    0 => { let _ = apa.add(&ida, &c1a); }
                    1 => { let _ = apa.add(&ida, &c2a); }
                    2 => { let _ = apb.add(&idb, &c1b); }
                    _ => { let _ = apb.add(&idb, &c2b); }
                }
            }
            // handler exits of the losers, late and in both orders
            let exits: Vec<(&ActivePeersHandle, PeerId, &Conn)> = vec![(&apa, idb, &c1a), (&apa, idb, &c2a), (&apb, ida, &c1b), (&apb, ida, &c2b)];
            let flip = n_orders % 2 == 1;
            let closed_before: Vec<bool> = exits.iter().map(|(_, _, c)| c.is_closed()).collect();
            let it: Vec<usize> = if flip { (0..4).rev().collect() } else { (0..4).collect() };
            for i in it {
                if closed_before[i] {
                    let (ap, p, c) = &exits[i];
                    ap.remove_with_stable_id(*p, c.stable_id(), end_reason(n_orders as usize + i));
                }
            }
            n_orders += 1;
            let a_sid = apa.get_stable_id(&idb);
            let b_sid = apb.get_stable_id(&ida);
            let a_keeps_c1 = a_sid == Some(c1a.stable_id());
            let b_keeps_c1 = b_sid == Some(c1b.stable_id());
            let desc = format!("order {order:?} (0=A.add(A's dial) 1=A.add(B's dial) 2=B.add(A's dial) 3=B.add(B's dial))");
            if apa.peers() != vec![idb] || apb.peers() != vec![ida] {
                problems.push(format!("{desc}: listings are {} / {} entries after the late exits of the replaced connections", apa.peers().len(), apb.peers().len()));
            } else if a_keeps_c1 != b_keeps_c1 {
                problems.push(format!("{desc}: A keeps {} but B keeps {}", if a_keeps_c1 { "A's dial" } else { "B's dial" }, if b_keeps_c1 { "A's dial" } else { "B's dial" }));
            } else {
                let dialer_greater = if a_keeps_c1 { ida > idb } else { idb > ida };
                survivors.insert(if dialer_greater { "dialed-by-greater" } else { "dialed-by-lesser" });
                // survivor open on both sides, loser closed locally where it was refused/replaced
                let (sa, sb, la, lb) = if a_keeps_c1 { (&c1a, &c1b, &c2a, &c2b) } else { (&c2a, &c2b, &c1a, &c1b) };
                if sa.is_closed() || sb.is_closed() {
                    problems.push(format!("{desc}: the surviving connection was closed"));
                }
                if !la.is_closed() || !lb.is_closed() {
                    problems.push(format!("{desc}: the losing connection was left open"));
                }
            }
            // event sequences per side: N or NLN
            for (side, rx) in [("A", &mut rxa), ("B", &mut rxb)] {
                let mut s = String::new();
                while let Ok(e) = rx.try_recv() {
                    s.push(match e { PeerEvent::NewPeer(_) => 'N', PeerEvent::LostPeer(..) => 'L' });
                }
                if s != "N" && s != "NLN" {
                    problems.push(format!("{desc}: {side}'s event sequence is {s:?}"));
                }
            }
            for c in [&c1a, &c1b, &c2a, &c2b] {
                c.close();
            }
            if !problems.is_empty() {
                break;
            }
        }
        if survivors.len() > 1 {
            problems.push("the survivor depends on the registration order".into());
        }
        ea.close();
        eb.close();
        let r = if problems.is_empty() {
            ScenarioResult::held(format!("direct a_greater={} survivor={:?}", ida > idb, survivors))
                .with_sample(json!({"kind": "direct drive, all 24 registration orders", "a_greater": ida > idb, "survivor": survivors}))
        } else {
            ScenarioResult::violated(problems[0].clone(), json!({"seed": seed, "problems": problems}))
        };
        r.count("direct_registration_orders", n_orders)
    });
    drop(rt);
    res
}

// ------------------------------------------------------------------------------------------------
// C04: exhaustive operation sequences against a reference model

#[derive(Clone, Copy, Debug, PartialEq, Eq)]
enum Op {
    Add(usize),
    Exit(usize),
    Disconnect(usize), // peer index
    Subscribe,
}

struct Model {
    own: PeerId,
    entries: BTreeMap<PeerId, usize>, // peer -> connection index
    closed: BTreeSet<usize>,
    events: Vec<PeerEvent>,
}

/// Enumerate sequences: every connection is added exactly once; an exit may follow its add;
/// up to `max_disc` disconnects per peer; one subscribe anywhere; total length <= max_len.
fn enumerate(k: usize, npeers: usize, max_len: usize, max_disc: usize) -> Vec<Vec<Op>> {
    fn rec(k: usize, npeers: usize, max_len: usize, max_disc: usize, cur: &mut Vec<Op>, out: &mut Vec<Vec<Op>>) {
        let added = |c: usize, cur: &Vec<Op>| cur.contains(&Op::Add(c));
        let all_added = (0..k).all(|c| added(c, cur));
        if all_added {
            out.push(cur.clone());
        }
        if cur.len() >= max_len {
            return;
        }
        for c in 0..k {
            if !added(c, cur) {
                cur.push(Op::Add(c));
                rec(k, npeers, max_len, max_disc, cur, out);
                cur.pop();
            } else if !cur.contains(&Op::Exit(c)) {
                cur.push(Op::Exit(c));
                rec(k, npeers, max_len, max_disc, cur, out);
                cur.pop();
            }
        }
        for p in 0..npeers {
            if cur.iter().filter(|o| **o == Op::Disconnect(p)).count() < max_disc {
                cur.push(Op::Disconnect(p));
                rec(k, npeers, max_len, max_disc, cur, out);
                cur.pop();
            }
        }
        if !cur.contains(&Op::Subscribe) {
            cur.push(Op::Subscribe);
            rec(k, npeers, max_len, max_disc, cur, out);
            cur.pop();
        }
    }
    let mut out = Vec::new();
    rec(k, npeers, max_len, max_disc, &mut Vec::new(), &mut out);
    out
}

/// shapes: which connections exist. Each entry = (peer index, dialed_by_remote).
const SHAPES: [&[(usize, bool)]; 4] = [
    &[(0, true), (0, false)],
    &[(0, true), (0, true)],
    &[(0, true), (0, false), (1, true)],
    &[(0, true), (0, true), (0, false)],
];

pub fn c04_exhaustive(idx: usize, seed: u64, max_len: usize, stride: usize) -> ScenarioResult {
    let shape = SHAPES[idx % SHAPES.len()];
    let mut rng = StdRng::seed_from_u64(seed ^ 0xc04d);
    let mut keys = vec![[0u8; 32]; 3];
    for k in keys.iter_mut() {
        rng.fill(k);
    }
    let rt = rt();
    let res = rt.block_on(async {
        let own = endpoint(keys[0]);
        let remotes = [endpoint(keys[1]), endpoint(keys[2])];
        let own_id = own.peer_id();
        let seqs = enumerate(shape.len(), 2, max_len, 1);
        let total = seqs.len();
        let mut problems: Vec<String> = Vec::new();
        let mut n_run = 0u64;
        let mut n_ops = 0u64;
        let mut sigs: BTreeSet<String> = BTreeSet::new();
        for (si, seq) in seqs.iter().enumerate() {
            if stride > 1 && (si + idx / SHAPES.len()) % stride != 0 {
                continue;
            }
            // fresh real connections for this sequence
            let mut conns: Vec<(Conn, Conn, PeerId)> = Vec::new(); // (local handle, remote handle, peer)
            for (p, by_remote) in shape.iter() {
                let r = &remotes[*p];
                let pair = if *by_remote { connect(r, &own).await.map(|(d, l)| (l, d)) } else { connect(&own, r).await };
                match pair {
                    Some((local, remote)) => conns.push((local, remote, r.peer_id())),
                    None => return ScenarioResult::inconclusive("handshake failed"),
                }
            }
            let ap = ActivePeersHandle::new(256);
            let (mut rx0, snap0) = ap.subscribe();
            let mut m = Model { own: own_id, entries: BTreeMap::new(), closed: BTreeSet::new(), events: vec![] };
            let mut late_sub: Option<(tokio::sync::broadcast::Receiver<PeerEvent>, Vec<PeerId>, usize)> = None;
            n_run += 1;
            for (oi, op) in seq.iter().enumerate() {
                n_ops += 1;
                match op {
                    Op::Add(c) => {
                        let (local, _, peer) = &conns[*c];
                        let kept = ap.add(&own_id, local);
                        let want_kept = match m.entries.get(peer).copied() {
                            None => {
                                m.entries.insert(*peer, *c);
                                m.events.push(PeerEvent::NewPeer(*peer));
                                true
                            }
                            Some(e) => {
                                let e_in = is_inbound(conns[e].0.origin());
                                let n_in = is_inbound(local.origin());
                                if ref_keep_new(&m.own, peer, e_in, n_in) {
                                    m.closed.insert(e);
                                    m.entries.insert(*peer, *c);
                                    m.events.push(PeerEvent::LostPeer(*peer, DisconnectReason::Requested));
                                    m.events.push(PeerEvent::NewPeer(*peer));
                                    true
                                } else {
                                    m.closed.insert(*c);
                                    false
                                }
                            }
                        };
                        if kept != want_kept {
                            problems.push(format!("add of connection {c}: kept={kept}, model says {want_kept}"));
                        }
                    }
                    Op::Exit(c) => {
                        let (local, _, peer) = &conns[*c];
                        let reason = end_reason(si + *c + idx);
                        ap.remove_with_stable_id(*peer, local.stable_id(), reason.clone());
                        if m.entries.get(peer) == Some(c) {
                            m.entries.remove(peer);
                            m.closed.insert(*c);
                            m.events.push(PeerEvent::LostPeer(*peer, reason));
                        }
                    }
                    Op::Disconnect(p) => {
                        let peer = remotes[*p].peer_id();
                        ap.remove(&peer, DisconnectReason::Requested);
                        if let Some(c) = m.entries.remove(&peer) {
                            m.closed.insert(c);
                            m.events.push(PeerEvent::LostPeer(peer, DisconnectReason::Requested));
                        }
                    }
                    Op::Subscribe => {
                        let (rx, snap) = ap.subscribe();
                        let want: Vec<PeerId> = m.entries.keys().copied().collect();
                        if crate::world::sorted(snap.clone()) != want {
                            problems.push("snapshot returned by subscribe() differs from the listing at that moment".into());
                        }
                        late_sub = Some((rx, snap, m.events.len()));
                    }
                }
                // after every step: listing, live connections, stable id of the entry
                let listing = crate::world::sorted(ap.peers());
                let want: Vec<PeerId> = m.entries.keys().copied().collect();
                if listing != want {
                    problems.push(format!("after step {oi} ({op:?}): peers() has {} entries, model {}", listing.len(), want.len()));
                }
                if ap.len() != want.len() {
                    problems.push(format!("after step {oi}: len() = {}, model {}", ap.len(), want.len()));
                }
                for (ci, (local, _, peer)) in conns.iter().enumerate() {
                    let should_be_closed = m.closed.contains(&ci);
                    if local.is_closed() != should_be_closed {
                        problems.push(format!("after step {oi} ({op:?}): connection {ci} closed={}, model says {should_be_closed}", local.is_closed()));
                    }
                    if m.entries.get(peer) == Some(&ci) && ap.get_stable_id(peer) != Some(local.stable_id()) {
                        problems.push(format!("after step {oi}: the entry for the peer is not connection {ci}"));
                    }
                }
                if !problems.is_empty() {
                    break;
                }
            }
            // event streams: first subscriber sees exactly the model's events; late subscriber its suffix
            let mut got = Vec::new();
            while let Ok(e) = rx0.try_recv() {
                got.push(e);
            }
            if got != m.events {
                problems.push(format!("event stream {:?} differs from the change log {:?}", got.len(), m.events.len()));
            }
            if !snap0.is_empty() {
                problems.push("initial snapshot not empty".into());
            }
            if let Some((mut rx, snap, from)) = late_sub {
                let mut got = Vec::new();
                while let Ok(e) = rx.try_recv() {
                    got.push(e);
                }
                if got != m.events[from..] {
                    problems.push("a later subscriber did not receive exactly the events after its snapshot".into());
                }
                match crate::world::replay_events(&snap, &got) {
                    Ok(fin) => {
                        if fin != crate::world::sorted(ap.peers()) {
                            problems.push("snapshot + later events do not reproduce the listing".into());
                        }
                    }
                    Err(e) => problems.push(format!("late subscriber: {e}")),
                }
            }
            sigs.insert(format!("shape{} len{} events{}", idx % SHAPES.len(), seq.len(), m.events.len().min(6)));
            for (l, r, _) in &conns {
                l.close();
                r.close();
            }
            if !problems.is_empty() {
                problems.push(format!("sequence {seq:?} on shape {shape:?} (peer index, dialed by remote)"));
                break;
            }
        }
        own.close();
        for r in &remotes {
            r.close();
        }
        let mut r = if problems.is_empty() {
            ScenarioResult::held(format!("exhaustive shape {}", idx % SHAPES.len()))
                .with_sample(json!({"kind": "direct drive of the active-peer set", "shape(peer,dialed_by_remote)": shape, "sequences_in_space": total, "sequences_run": n_run, "max_len": max_len, "stride": stride, "example": format!("{:?}", seqs.get(total / 2))}))
        } else {
            ScenarioResult::violated(problems[0].clone(), json!({"seed": seed, "problems": problems}))
        };
        r.add("direct_sequences_run", n_run);
        if (idx / SHAPES.len()) == 0 {
            r.add("direct_sequences_in_space", total as u64);
        }
        r.add("direct_ops_checked", n_ops);
        for s in sigs {
            r.add(&format!("sig:{s}"), 1);
        }
        r
    });
    drop(rt);
    res
}

// ------------------------------------------------------------------------------------------------
// C04: multi-threaded stress with concurrent subscribers (drain, list, drain)

pub fn c04_stress(idx: usize, seed: u64, ops_per_thread: usize) -> ScenarioResult {
    let mut rng = StdRng::seed_from_u64(seed ^ 0xc04e);
    let rt = rt();
    // a pool of real connections with 3 remote identities, both origins
    let pool: Option<(RawEndpoint, Vec<RawEndpoint>, Vec<(Conn, PeerId)>)> = rt.block_on(async {
        let mut k = [0u8; 32];
        rng.fill(&mut k);
        let own = endpoint(k);
        let mut remotes = Vec::new();
        for _ in 0..3 {
            rng.fill(&mut k);
            remotes.push(endpoint(k));
        }
        let mut conns = Vec::new();
        for r in &remotes {
            for j in 0..4 {
                let pair = if j % 2 == 0 { connect(r, &own).await.map(|(d, l)| (l, d)) } else { connect(&own, r).await };
                let (local, _remote) = pair?;
                conns.push((local, r.peer_id()));
            }
        }
        Some((own, remotes, conns))
    });
    let Some((own, remotes, conns)) = pool else { return ScenarioResult::inconclusive("handshake failed") };
    let own_id = own.peer_id();
    let ap = ActivePeersHandle::new(1 << 16);
    let conns = Arc::new(conns);
    let stop = Arc::new(AtomicBool::new(false));
    let problems: Arc<Mutex<Vec<String>>> = Default::default();
    let samples = Arc::new(AtomicU64::new(0));
    let events_seen = Arc::new(AtomicU64::new(0));
    let lagged = Arc::new(AtomicU64::new(0));
    let mut subs = Vec::new();
    for s in 0..4 {
        let (ap, stop, problems, samples, events_seen, lagged) = (ap.clone(), stop.clone(), problems.clone(), samples.clone(), events_seen.clone(), lagged.clone());
        subs.push(std::thread::spawn(move || {
            let (mut rx, snap) = ap.subscribe();
            let mut state: BTreeSet<PeerId> = snap.iter().copied().collect();
            if state.len() != snap.len() {
                problems.lock().unwrap().push("duplicate in snapshot".into());
            }
            let apply = |state: &mut BTreeSet<PeerId>, e: &PeerEvent| -> Result<(), String> {
                match e {
                    PeerEvent::NewPeer(p) => if !state.insert(*p) { return Err("NewPeer for a peer already present (events do not alternate)".into()) },
                    PeerEvent::LostPeer(p, _) => if !state.remove(p) { return Err("LostPeer for a peer not present (events do not alternate)".into()) },
                }
                Ok(())
            };
            let mut done = false;
            while !done {
                if stop.load(Ordering::SeqCst) {
                    done = true; // one last round after the writers stopped
                }
                // drain 1
                loop {
                    match rx.try_recv() {
                        Ok(e) => {
                            events_seen.fetch_add(1, Ordering::Relaxed);
                            if let Err(m) = apply(&mut state, &e) {
                                problems.lock().unwrap().push(format!("subscriber {s}: {m}"));
                                return;
                            }
                        }
                        Err(tokio::sync::broadcast::error::TryRecvError::Empty) => break,
                        Err(tokio::sync::broadcast::error::TryRecvError::Lagged(n)) => {
                            lagged.fetch_add(n, Ordering::Relaxed);
                            return; // this subscriber's history is no longer complete
                        }
                        Err(tokio::sync::broadcast::error::TryRecvError::Closed) => return,
                    }
                }
                let s1 = state.clone();
                let listing = ap.peers();
                let lset: BTreeSet<PeerId> = listing.iter().copied().collect();
                if lset.len() != listing.len() {
                    problems.lock().unwrap().push(format!("subscriber {s}: duplicates in peers()"));
                    return;
                }
                // drain 2: the listing must equal one of the states reached while replaying it
                let mut matched = lset == s1;
                loop {
                    match rx.try_recv() {
                        Ok(e) => {
                            events_seen.fetch_add(1, Ordering::Relaxed);
                            if let Err(m) = apply(&mut state, &e) {
                                problems.lock().unwrap().push(format!("subscriber {s}: {m}"));
                                return;
                            }
                            if state == lset {
                                matched = true;
                            }
                        }
                        Err(tokio::sync::broadcast::error::TryRecvError::Empty) => break,
                        Err(tokio::sync::broadcast::error::TryRecvError::Lagged(n)) => {
                            lagged.fetch_add(n, Ordering::Relaxed);
                            return;
                        }
                        Err(tokio::sync::broadcast::error::TryRecvError::Closed) => return,
                    }
                }
                samples.fetch_add(1, Ordering::Relaxed);
                if !matched {
                    // events for the listing may still be in flight only if they are sent outside
                    // the lock; give them a moment, then decide
                    std::thread::sleep(Duration::from_millis(2));
                    let mut late = false;
                    while let Ok(e) = rx.try_recv() {
                        if apply(&mut state, &e).is_err() {
                            break;
                        }
                        if state == lset {
                            late = true;
                        }
                    }
                    problems.lock().unwrap().push(format!(
                        "subscriber {s}: peers() returned a listing ({} entries) that no prefix of the event stream up to that moment reproduces{}",
                        lset.len(), if late { " (the events arrived later: they are not published atomically with the change)" } else { "" }
                    ));
                    return;
                }
            }
        }));
    }
    let mut writers = Vec::new();
    for t in 0..8 {
        let (ap, conns) = (ap.clone(), conns.clone());
        let remotes_ids: Vec<PeerId> = remotes.iter().map(|r| r.peer_id()).collect();
        let mut rng = StdRng::seed_from_u64(seed ^ (t as u64) << 16);
        writers.push(std::thread::spawn(move || {
            for _ in 0..ops_per_thread {
                let (c, p) = &conns[rng.gen_range(0..conns.len())];
                match rng.gen_range(0..10) {
                    0..=4 => {
                        let _ = ap.add(&own_id, c);
                    }
                    5 | 6 => ap.remove_with_stable_id(*p, c.stable_id(), end_reason(rng.gen_range(0..7))),
                    7 => ap.remove(&remotes_ids[rng.gen_range(0..remotes_ids.len())], DisconnectReason::Requested),
                    8 => {
                        let l = ap.peers();
                        let s: BTreeSet<_> = l.iter().collect();
                        assert_eq!(s.len(), l.len());
                    }
                    _ => {
                        let _ = ap.subscribe();
                    }
                }
            }
        }));
    }
    for w in writers {
        let _ = w.join();
    }
    stop.store(true, Ordering::SeqCst);
    for s in subs {
        let _ = s.join();
    }
    rt.block_on(async {
        own.close();
        for r in &remotes {
            r.close();
        }
    });
    drop(rt);
    let problems = problems.lock().unwrap().clone();
    let _ = idx;
    let r = if !problems.is_empty() {
        ScenarioResult::violated(problems[0].clone(), json!({"seed": seed, "problems": problems}))
    } else if samples.load(Ordering::SeqCst) == 0 {
        ScenarioResult::inconclusive("every subscriber lagged before completing a sample")
    } else {
        ScenarioResult::held("stress").with_sample(json!({"kind": "multi-thread stress of the active-peer set", "writer_threads": 8, "subscriber_threads": 4,
            "ops": 8 * ops_per_thread, "drain-list-drain samples": samples.load(Ordering::SeqCst), "events": events_seen.load(Ordering::SeqCst)}))
    };
    r.count("stress_ops", 8 * ops_per_thread as u64)
        .count("stress_drain_list_drain_samples", samples.load(Ordering::SeqCst))
        .count("stress_events_replayed", events_seen.load(Ordering::SeqCst))
        .count("stress_subscribers_lagged", (lagged.load(Ordering::SeqCst) > 0) as u64)
}

// ------------------------------------------------------------------------------------------------
// C04/C05: two operations racing on two threads must be equivalent to one of their two orders

#[derive(Clone, Copy, Debug, PartialEq, Eq)]
enum ROp {
    Add(usize),
    Exit(usize),
    Disconnect,
}

/// sequential reference: state = index of the registered connection (None = absent)
fn ref_apply(own: &PeerId, peer: &PeerId, inbound: &[bool], st: &mut Option<usize>, op: ROp, events: &mut Vec<char>) -> Option<bool> {
    match op {
        ROp::Add(c) => match *st {
            None => {
                *st = Some(c);
                events.push('N');
                Some(true)
            }
            Some(e) => {
                if ref_keep_new(own, peer, inbound[e], inbound[c]) {
                    *st = Some(c);
                    events.push('L');
                    events.push('N');
                    Some(true)
                } else {
                    Some(false)
                }
            }
        },
        ROp::Exit(c) => {
            if *st == Some(c) {
                *st = None;
                events.push('L');
            }
            None
        }
        ROp::Disconnect => {
            if st.is_some() {
                *st = None;
                events.push('L');
            }
            None
        }
    }
}

pub fn c04_race(idx: usize, seed: u64, rounds: usize) -> ScenarioResult {
    let mut rng = StdRng::seed_from_u64(seed ^ 0xc04f);
    let rt = rt();
    let pool: Option<(RawEndpoint, RawEndpoint, Vec<Conn>)> = rt.block_on(async {
        let mut k = [0u8; 32];
        rng.fill(&mut k);
        let own = endpoint(k);
        rng.fill(&mut k);
        let remote = endpoint(k);
        let mut conns = Vec::new();
        for j in 0..4 {
            let pair = if j % 2 == 0 { connect(&remote, &own).await.map(|(d, l)| (l, d)) } else { connect(&own, &remote).await };
            conns.push(pair?.0);
        }
        Some((own, remote, conns))
    });
    let Some((own, remote, conns)) = pool else { return ScenarioResult::inconclusive("handshake failed") };
    let own_id = own.peer_id();
    let peer = remote.peer_id();
    let inbound: Vec<bool> = conns.iter().map(|c| is_inbound(c.origin())).collect();
    let ap = ActivePeersHandle::new(1 << 12);
    let conns = Arc::new(conns);
    let mut problems: Vec<String> = Vec::new();
    let mut outcomes: BTreeSet<String> = BTreeSet::new();
    let mut both_orders_distinguishable = 0u64;
    // two persistent worker threads, released together by a barrier each round
    let barrier = Arc::new(std::sync::Barrier::new(3));
    let slots: Arc<[Mutex<Option<ROp>>; 2]> = Arc::new([Mutex::new(None), Mutex::new(None)]);
    let results: Arc<[Mutex<Option<Option<bool>>>; 2]> = Arc::new([Mutex::new(None), Mutex::new(None)]);
    let quit = Arc::new(AtomicBool::new(false));
    let mut workers = Vec::new();
    for wi in 0..2 {
        let (barrier, slots, results, quit, ap, conns) = (barrier.clone(), slots.clone(), results.clone(), quit.clone(), ap.clone(), conns.clone());
        workers.push(std::thread::spawn(move || loop {
            barrier.wait(); // round start
            if quit.load(Ordering::SeqCst) {
                return;
            }
            let op = slots[wi].lock().unwrap().take().unwrap();
            let r = match op {
                ROp::Add(c) => Some(ap.add(&own_id, &conns[c])),
                ROp::Exit(c) => {
                    ap.remove_with_stable_id(peer, conns[c].stable_id(), end_reason(c + idx));
                    None
                }
                ROp::Disconnect => {
                    ap.remove(&peer, DisconnectReason::Requested);
                    None
                }
            };
            *results[wi].lock().unwrap() = Some(r);
            barrier.wait(); // round end
        }));
    }
    for round in 0..rounds {
        // initial state
        ap.remove(&peer, DisconnectReason::Requested);
        let init: Option<usize> = if rng.gen_bool(0.8) { Some(rng.gen_range(0..4)) } else { None };
        if let Some(c) = init {
            let _ = ap.add(&own_id, &conns[c]);
        }
        let (mut rx, _) = ap.subscribe();
        let pick = |rng: &mut StdRng| match rng.gen_range(0..10) {
            0..=4 => ROp::Add(rng.gen_range(0..4)),
            5..=8 => ROp::Exit(rng.gen_range(0..4)),
            _ => ROp::Disconnect,
        };
        let (mut o1, mut o2) = (pick(&mut rng), pick(&mut rng));
        // the interesting pair gets extra weight: a replacement racing the exit of the replaced one
        if let (Some(c), true) = (init, round % 3 == 0) {
            let newer = (c + 2) % 4; // same direction as c: always replaces
            o1 = ROp::Add(newer);
            o2 = ROp::Exit(c);
        }
        *slots[0].lock().unwrap() = Some(o1);
        *slots[1].lock().unwrap() = Some(o2);
        barrier.wait();
        barrier.wait();
        let r1 = results[0].lock().unwrap().take().unwrap();
        let r2 = results[1].lock().unwrap().take().unwrap();
        let final_entry: Option<usize> = ap.get_stable_id(&peer).and_then(|sid| conns.iter().position(|c| c.stable_id() == sid));
        let mut evs = String::new();
        while let Ok(e) = rx.try_recv() {
            evs.push(match e { PeerEvent::NewPeer(_) => 'N', PeerEvent::LostPeer(..) => 'L' });
        }
        // the two sequential orders
        let mut admissible = Vec::new();
        for (first, second, swap) in [(o1, o2, false), (o2, o1, true)] {
            let mut st = init;
            let mut ev = Vec::new();
            let ra = ref_apply(&own_id, &peer, &inbound, &mut st, first, &mut ev);
            let rb = ref_apply(&own_id, &peer, &inbound, &mut st, second, &mut ev);
            let (x1, x2) = if swap { (rb, ra) } else { (ra, rb) };
            admissible.push((st, x1, x2, ev.iter().collect::<String>()));
        }
        if admissible[0] != admissible[1] {
            both_orders_distinguishable += 1;
        }
        let got = (final_entry, r1, r2, evs.clone());
        if !admissible.contains(&got) {
            problems.push(format!(
                "round {round}: from state {init:?}, {o1:?} and {o2:?} ran concurrently and produced (entry {:?}, results {:?}/{:?}, events {evs:?}); neither order explains it: {:?}",
                final_entry, r1, r2, admissible
            ));
            break;
        }
        outcomes.insert(format!("{:?}|{:?}|{}", o1, o2, admissible.iter().position(|a| *a == got).unwrap()));
    }
    quit.store(true, Ordering::SeqCst);
    barrier.wait();
    for w in workers {
        let _ = w.join();
    }
    rt.block_on(async {
        own.close();
        remote.close();
    });
    drop(rt);
    let _ = idx;
    let r = if problems.is_empty() {
        ScenarioResult::held("race pairs").with_sample(json!({"kind": "two operations racing on two threads vs. their two sequential orders", "rounds": rounds, "distinct (op,op,order) outcomes": outcomes.len()}))
    } else {
        ScenarioResult::violated(problems[0].clone(), json!({"seed": seed, "problems": problems}))
    };
    r.count("race_rounds", rounds as u64)
        .count("race_rounds_with_distinguishable_orders", both_orders_distinguishable)
        .count("race_distinct_outcomes", outcomes.len() as u64)
}
