//! C01 – peer identity is cryptographically authenticated.
//!
//! Part A (component): the three certificate verifiers + `peer_id_from_certificate`, driven with
//! forged / replayed / mutated certificates; oracle O1/O2 (binding of accepted certificate,
//! accepted handshake signature and attributed PeerId).
//! Part B (simnet): adversary endpoints as dialer and as listener against real Networks; oracle
//! O3/O4 (every attributed PeerId equals the ground-truth owner of the remote address).

use super::Ctx;
use crate::{
    adversary::{self, Adversary, CertKey, CertVariant},
    refmodel::wire as refwire,
    runner::{self, Report, RunCfg, ScenarioResult, Summary},
    world::{self, peer_id_of_key, pid_hex, NodeCfg, RpcSpec, World},
};
use anemo::{types::PeerEvent, PeerId};
use rand::{rngs::StdRng, Rng, SeedableRng};
use rustls::pki_types::{CertificateDer, ServerName};
use serde_json::json;
use std::{sync::Arc, time::Duration};

const NAME: &str = "verif";

struct Verifiers {
    client: Arc<dyn rustls::server::danger::ClientCertVerifier>,
    server: Arc<dyn rustls::client::danger::ServerCertVerifier>,
}

fn sign(key: &[u8; 32], msg: &[u8]) -> Vec<u8> {
    ring::signature::Ed25519KeyPair::from_seed_unchecked(key)
        .unwrap()
        .sign(msg)
        .as_ref()
        .to_vec()
}

/// One verifier-level evaluation. Returns (violation, accepted_by_any, class).
fn eval_cert(
    v: &Verifiers,
    class: &str,
    cert: &[u8],
    keys: &[(&'static str, [u8; 32])],
    expected: PeerId,
    honest_ids: &[PeerId],
    counters: &mut std::collections::BTreeMap<String, u64>,
) -> Option<(String, serde_json::Value)> {
    let c = CertificateDer::from(cert.to_vec());
    let now = adversary::now_unix();
    let sname = ServerName::try_from(NAME).unwrap();
    let cc = v.client.verify_client_cert(&c, &[], now).is_ok();
    let sc = v.server.verify_server_cert(&c, &[], &sname, &[], now).is_ok();
    let exp = anemo::verif::crypto::expected_server_cert_verifier(vec![NAME.into()], expected);
    let ec = exp.verify_server_cert(&c, &[], &sname, &[], now).is_ok();
    let pid = anemo::verif::crypto::peer_id_from_certificate(&c).ok();
    *counters.entry("verifier_inputs".into()).or_default() += 1;
    if cc || sc || ec {
        *counters.entry(format!("accepted:{class}")).or_default() += 1;
    }
    // O2: pin
    if ec && pid != Some(expected) {
        return Some((
            format!("pinned verifier accepted a certificate whose identity is {:?}, not the expected one", pid.map(|p| pid_hex(&p))),
            json!({"class": class, "cert": hex::encode(cert)}),
        ));
    }
    // O1: binding, for every key the harness holds
    let msg_c = adversary::tls13_verify_message(false, &[0x42; 32]);
    let msg_s = adversary::tls13_verify_message(true, &[0x43; 32]);
    for (kname, k) in keys {
        let kid = peer_id_of_key(k);
        let sig_c = adversary::dss(rustls::SignatureScheme::ED25519, &sign(k, &msg_c));
        let sig_s = adversary::dss(rustls::SignatureScheme::ED25519, &sign(k, &msg_s));
        let ok_client = v.client.verify_tls13_signature(&msg_c, &c, &sig_c).is_ok();
        let ok_server = v.server.verify_tls13_signature(&msg_s, &c, &sig_s).is_ok();
        let ok_exp = exp.verify_tls13_signature(&msg_s, &c, &sig_s).is_ok();
        *counters.entry("signature_checks".into()).or_default() += 3;
        for (which, accepted, sig_ok) in [
            ("client-cert verifier", cc, ok_client),
            ("server-cert verifier", sc, ok_server),
            ("pinned server-cert verifier", ec, ok_exp),
        ] {
            if accepted && sig_ok {
                *counters.entry("accepted_and_signed".into()).or_default() += 1;
                if let Some(p) = pid {
                    if p != kid {
                        return Some((
                            format!(
                                "{which}: certificate ({class}) and a handshake signature by key {kname} are both accepted but the attributed PeerId {} is not that key's public key {}",
                                pid_hex(&p), pid_hex(&kid)
                            ),
                            json!({"class": class, "cert": hex::encode(cert), "signer": kname}),
                        ));
                    }
                }
            }
        }
        // O1b: the label on the signature.  Identities are Ed25519 keys, so the only handshake
        // signature that proves anything is a valid Ed25519 signature by the certificate's key:
        // the same bytes (or junk) labelled with any other scheme, and junk labelled Ed25519,
        // must be refused by every verifier for every certificate it accepts (TLS 1.3 and 1.2 entry points).
        if *kname == "X" && pid.is_some() && (cc || sc || ec) && (!class.starts_with("mutated") || crate::world::hash_bytes(cert) % 8 == 0) {
            use rustls::SignatureScheme as S;
            let good = sign(k, &msg_s);
            let junk: [&[u8]; 3] = [&[0u8; 64], &[], &good[..63]];
            let mut forged: Vec<(S, Vec<u8>)> = Vec::new();
            for sch in [S::ECDSA_NISTP256_SHA256, S::ECDSA_NISTP384_SHA384, S::ECDSA_NISTP521_SHA512, S::RSA_PSS_SHA256, S::RSA_PSS_SHA512, S::RSA_PKCS1_SHA256, S::ECDSA_SHA1_Legacy, S::ED448, S::Unknown(0), S::Unknown(0x0808), S::Unknown(0xffff)] {
                forged.push((sch, good.clone()));
                forged.push((sch, vec![0u8; 64]));
                forged.push((sch, vec![]));
            }
            for j in junk {
                forged.push((S::ED25519, j.to_vec()));
            }
            for (sch, bytes) in forged {
                let d = adversary::dss(sch, &bytes);
                *counters.entry("mislabelled_or_junk_signature_checks".into()).or_default() += 6;
                for (which, accepted, sig_ok) in [
                    ("client-cert verifier (TLS 1.3)", cc, v.client.verify_tls13_signature(&msg_s, &c, &d).is_ok()),
                    ("client-cert verifier (TLS 1.2)", cc, v.client.verify_tls12_signature(&msg_s, &c, &d).is_ok()),
                    ("server-cert verifier (TLS 1.3)", sc, v.server.verify_tls13_signature(&msg_s, &c, &d).is_ok()),
                    ("server-cert verifier (TLS 1.2)", sc, v.server.verify_tls12_signature(&msg_s, &c, &d).is_ok()),
                    ("pinned server-cert verifier (TLS 1.3)", ec, exp.verify_tls13_signature(&msg_s, &c, &d).is_ok()),
                    ("pinned server-cert verifier (TLS 1.2)", ec, exp.verify_tls12_signature(&msg_s, &c, &d).is_ok()),
                ] {
                    if accepted && sig_ok {
                        return Some((
                            format!(
                                "{which}: certificate ({class}) accepted together with a handshake 'signature' of {} bytes labelled {sch:?} that is not a valid Ed25519 signature by the certificate's key - the remote end is attributed {} without proving it holds that key",
                                bytes.len(), pid.map(|p| pid_hex(&p)).unwrap_or_default()
                            ),
                            json!({"class": class, "cert": hex::encode(cert), "scheme": format!("{sch:?}"), "signature": hex::encode(&bytes)}),
                        ));
                    }
                }
            }
        }
        // A wrong-key signature accepted for an honest party's certificate = impersonation
        if let Some(p) = pid {
            if honest_ids.contains(&p) && p != kid && (ok_client && cc || ok_server && sc) {
                return Some((
                    format!("signature by {kname} accepted for a certificate attributed to {}", pid_hex(&p)),
                    json!({"class": class, "cert": hex::encode(cert)}),
                ));
            }
        }
    }
    None
}

pub fn component_scenario(idx: usize, seed: u64, full_mutation: bool) -> ScenarioResult {
    let mut rng = StdRng::seed_from_u64(seed ^ 0xc01a);
    let mut kx = [0u8; 32];
    let mut ky = [0u8; 32];
    rng.fill(&mut kx);
    rng.fill(&mut ky);
    let x = peer_id_of_key(&kx);
    let v = Verifiers {
        client: anemo::verif::crypto::client_cert_verifier(vec![NAME.into()]),
        server: anemo::verif::crypto::server_cert_verifier(vec![NAME.into()]),
    };
    let keys = [("X", kx), ("Y", ky)];
    let honest = [x];
    let cx = CertKey::honest(kx, NAME).chain[0].to_vec();
    let cy = CertKey::honest(ky, NAME).chain[0].to_vec();
    let mut counters: std::collections::BTreeMap<String, u64> = Default::default();
    let mut classes_seen = std::collections::BTreeSet::new();
    let mut certs: Vec<(String, Vec<u8>)> = vec![
        ("honest-x".into(), cx.clone()),
        ("honest-y".into(), cy.clone()),
        ("x-tbs-resigned-by-y".into(), adversary::resign_cert(&cx, &ky).unwrap()),
        ("y-with-x-planted".into(), adversary::make_cert(&ky, NAME, &CertVariant::Planted(x.0))),
        ("expired-x".into(), adversary::make_cert(&kx, NAME, &CertVariant::Expired)),
        ("not-yet-valid-y".into(), adversary::make_cert(&ky, NAME, &CertVariant::NotYetValid)),
        ("ca-flagged-y".into(), adversary::make_cert(&ky, NAME, &CertVariant::CaFlagged)),
        ("no-san-y".into(), adversary::make_cert(&ky, NAME, &CertVariant::NoSan)),
        ("other-name-y".into(), adversary::make_cert(&ky, "other-net", &CertVariant::Plain)),
        ("ecdsa".into(), adversary::make_ecdsa_cert(NAME).chain[0].to_vec()),
        ("empty".into(), vec![]),
    ];
    // truncations
    for l in (0..cx.len()).step_by(if full_mutation { 1 } else { 7 }) {
        certs.push(("truncated-x".into(), cx[..l].to_vec()));
    }
    // random DER-shaped garbage
    for _ in 0..20 {
        let l = rng.gen_range(2..400);
        let mut g: Vec<u8> = (0..l).map(|_| rng.gen()).collect();
        g[0] = 0x30;
        certs.push(("garbage".into(), g));
    }
    // single-byte mutations of X's certificate
    let muts: Vec<u8> = if full_mutation {
        (1..=255u8).collect()
    } else {
        vec![0x01, 0x80, 0xff]
    };
    // quick: a seeded third of the offsets per scenario (all offsets are covered across scenarios)
    for off in 0..cx.len() {
        if !full_mutation && (off + idx) % 3 != 0 {
            continue;
        }
        for m in &muts {
            let mut c = cx.clone();
            c[off] ^= m;
            certs.push(("mutated-x".into(), c));
        }
        if !full_mutation {
            for val in [0x00u8, 0xff] {
                if cx[off] != val {
                    let mut c = cx.clone();
                    c[off] = val;
                    certs.push(("mutated-x".into(), c));
                }
            }
        }
    }
    // x's cert with the SPKI key bytes replaced by y's key (identity field swap without re-signing)
    if let Some(pos) = cx.windows(32).position(|w| w == x.0) {
        let mut c = cx.clone();
        c[pos..pos + 32].copy_from_slice(&peer_id_of_key(&ky).0);
        certs.push(("x-spki-swapped-to-y".into(), c));
    }
    // a valid end-entity certificate followed by another party's certificate as "intermediate":
    // the identity is still the end entity's
    {
        let ee = CertificateDer::from(cy.clone());
        let inter = [CertificateDer::from(cx.clone())];
        let now = adversary::now_unix();
        let acc = v.client.verify_client_cert(&ee, &inter, now).is_ok();
        *counters.entry("verifier_inputs".to_owned()).or_default() += 1;
        if acc && anemo::verif::crypto::peer_id_from_certificate(&ee).ok() != Some(peer_id_of_key(&ky)) {
            return ScenarioResult::violated("chain [y, x]: identity is not the end entity's", json!({}));
        }
    }
    let n = certs.len();
    for (class, cert) in &certs {
        classes_seen.insert(class.clone());
        if let Some((what, wit)) = eval_cert(&v, class, cert, &keys, x, &honest, &mut counters) {
            let mut r = ScenarioResult::violated(what, wit);
            r.counters = counters;
            return r;
        }
    }
    // sanity: the honest certificates must be accepted, or the monitor is blind
    let acc_h = counters.get("accepted:honest-x").copied().unwrap_or(0)
        + counters.get("accepted:honest-y").copied().unwrap_or(0);
    let mut r = if acc_h < 2 {
        ScenarioResult::violated(
            "an honest self-signed certificate is rejected by the verifiers",
            json!({"seed": seed}),
        )
    } else {
        ScenarioResult::held(format!(
            "component classes={} accepted_nonhonest={}",
            classes_seen.len(),
            counters
                .iter()
                .filter(|(k, _)| k.starts_with("accepted:") && !k.contains("honest"))
                .count()
        ))
        .with_sample(json!({"part": "verifier-level", "scenario": idx, "certificates": n,
            "classes": classes_seen, "x": pid_hex(&x)}))
    };
    r.counters = counters;
    r
}

/// Messages whose content names other parties' identities in every encoding the code knows.
fn hostile_spec(claim: &PeerId, seed: u64) -> RpcSpec {
    let mut headers = world::Headers::new();
    headers.insert("peer-id".into(), hex::encode(claim.0));
    headers.insert("PeerId".into(), format!("{claim}"));
    headers.insert("x-peer".into(), String::from_utf8_lossy(&claim.0).into_owned());
    let mut body = claim.0.to_vec();
    body.extend_from_slice(&bincode::serialize(claim).unwrap());
    body.extend_from_slice(serde_json::to_string(claim).unwrap().as_bytes());
    body.extend_from_slice(&world::gen_bytes(seed, 100));
    RpcSpec {
        route: format!("/{}", hex::encode(claim.0)),
        headers,
        body: body.into(),
        script: None,
    }
}

pub fn e2e_scenario(idx: usize, seed: u64) -> ScenarioResult {
    runner::sim_block_on(|| async move {
        let mut w = World::new(seed);
        // adversary endpoints must stay alive until the scenario ends (and be dropped then)
        let mut keep_alive: Vec<Adversary> = Vec::new();
        let mut keep_nodes: Vec<crate::world::Node> = Vec::new();
        let mut rng = StdRng::seed_from_u64(seed ^ 0xc01b);
        let lossy = rng.gen_range(0..4) == 0;
        if lossy {
            w.fabric.set_default_link(crate::fabric::LinkParams {
                latency_min: Duration::from_millis(1),
                latency_max: Duration::from_millis(8),
                loss: 0.1,
                dup: 0.05,
            });
        }
        let kv = w.gen_key();
        let kx = w.gen_key();
        let ky = w.gen_key();
        let v = w.start_node(NodeCfg::new(kv)).unwrap();
        let h = w.start_node(NodeCfg::new(kx)).unwrap(); // holder of identity X
        let x = h.peer_id;
        let y = peer_id_of_key(&ky);
        let adv_addr: std::net::SocketAddr = format!("10.66.0.{}:4433", 1 + idx % 200).parse().unwrap();
        w.registry.insert(
            adv_addr,
            world::Party { peer_id: y, key: ky, honest: false },
        );
        let ck_y = CertKey::honest(ky, NAME);
        // the adversary learns X's certificate the way anyone can: by connecting to X
        let probe = Adversary::new(&w.fabric, format!("10.67.0.{}:1", 1 + idx % 200).parse().unwrap(), None);
        w.registry.insert(probe.addr, world::Party { peer_id: y, key: ky, honest: false });
        let cert_x = match probe.dial(h.addr, NAME, Some(ck_y.clone()), Duration::from_secs(5)).await {
            Ok(conn) => {
                let c = adversary::peer_cert_of(&conn);
                conn.close(0u32.into(), b"");
                c
            }
            Err(_) => None,
        };
        probe.close();
        let Some(cert_x) = cert_x else {
            w.close();
            return ScenarioResult::inconclusive("could not obtain X's certificate");
        };
        let ck_x_pub = CertKey { chain: vec![CertificateDer::from(cert_x.clone())], key: ck_y.key.clone() };
        tokio::time::sleep(Duration::from_secs(1)).await;
        let _ = h.net.disconnect(y);
        tokio::time::sleep(Duration::from_millis(200)).await;

        let action = idx % 12;
        let mut problems: Vec<String> = Vec::new();
        let mut admitted_as: Option<bool> = None;
        let action_name;
        let mut adv_conn: Option<quinn::Connection> = None;
        let listener_identity: Option<CertKey>;
        // ---- phase 1: X is not connected to V; nothing may attribute X at V
        let chain_own_then_x = CertKey { chain: vec![ck_y.chain[0].clone(), CertificateDer::from(cert_x.clone())], key: ck_y.key.clone() };
        match action {
            0..=6 | 10 => {
                let (name, ident): (&str, Option<CertKey>) = match action {
                    10 => ("dial:chain-own-cert-then-x-cert", Some(chain_own_then_x.clone())),
                    0 => ("dial:replay-x-cert-with-y-key", Some(ck_x_pub.clone())),
                    1 => (
                        "dial:x-tbs-resigned-by-y",
                        Some(ck_y.with_cert(adversary::resign_cert(&cert_x, &ky).unwrap())),
                    ),
                    2 => (
                        "dial:y-cert-with-x-planted",
                        Some(ck_y.with_cert(adversary::make_cert(&ky, NAME, &CertVariant::Planted(x.0)))),
                    ),
                    3 => ("dial:no-client-cert", None),
                    4 => ("dial:ecdsa-cert", Some(adversary::make_ecdsa_cert(NAME))),
                    5 => {
                        let mut c = ck_y.chain[0].to_vec();
                        let off = rng.gen_range(0..c.len());
                        c[off] ^= 1 << rng.gen_range(0..8);
                        ("dial:mutated-y-cert", Some(ck_y.with_cert(c)))
                    }
                    _ => ("dial:own-valid-cert", Some(ck_y.clone())),
                };
                action_name = name.to_owned();
                listener_identity = None;
                let adv = Adversary::new(&w.fabric, adv_addr, None);
                match adv.dial(v.addr, NAME, ident, Duration::from_secs(5)).await {
                    Ok(c) => {
                        admitted_as = Some(true);
                        adv_conn = Some(c);
                    }
                    Err(_) => admitted_as = Some(false),
                }
                keep_alive.push(adv);
            }
            _ => {
                // adversary as listener
                let (name, ident): (&str, CertKey) = match action {
                    11 => ("listen:chain-own-cert-then-x-cert", chain_own_then_x.clone()),
                    7 => ("listen:replay-x-cert-with-y-key", ck_x_pub.clone()),
                    8 => (
                        "listen:x-tbs-resigned-by-y",
                        ck_y.with_cert(adversary::resign_cert(&cert_x, &ky).unwrap()),
                    ),
                    _ => ("listen:own-valid-cert", ck_y.clone()),
                };
                action_name = name.to_owned();
                listener_identity = Some(ident.clone());
                let id2 = ident.clone();
                let adv = Adversary::new(&w.fabric, adv_addr, Some(Arc::new(move |_sni| Some(id2.clone()))));
                let ep = adv.ep.clone();
                tokio::spawn(async move {
                    while let Some(inc) = ep.accept().await {
                        tokio::spawn(async move {
                            if let Ok(c) = inc.accept() {
                                if let Ok(conn) = c.await {
                                    if let Ok(mut s) = conn.open_uni().await {
                                        let _ = s.write_all(b"anemo\x00\x01\x00").await;
                                        let _ = s.finish();
                                        let _ = s.stopped().await;
                                    }
                                    conn.closed().await;
                                }
                            }
                        });
                    }
                });
                // plain dial and pinned dial for X
                let dbg = std::env::var("VERIF_DEBUG").is_ok();
                if dbg { eprintln!("t={} plain dial", w.now()); }
                let r_plain = v.net.connect(adv_addr).await;
                if dbg { eprintln!("t={} pinned dial; plain={:?}", w.now(), r_plain.as_ref().map(pid_hex).map_err(|e| e.to_string())); }
                let r_pinned = v.net.connect_with_peer_id(adv_addr, x).await;
                if dbg { eprintln!("t={} pinned={:?}", w.now(), r_pinned.as_ref().map(pid_hex).map_err(|e| e.to_string())); }
                if let Ok(p) = &r_pinned {
                    problems.push(format!("connect_with_peer_id(adversary address, X) succeeded and returned {}", pid_hex(p)));
                }
                match &r_plain {
                    Ok(p) if *p == y && (action == 9 || action == 11) => admitted_as = Some(true),
                    Ok(p) => problems.push(format!("connect(adversary address) returned {} although the adversary only holds Y's key", pid_hex(p))),
                    Err(_) => admitted_as = Some(false),
                }
                keep_alive.push(adv);
            }
        }
        let _ = listener_identity;
        tokio::time::sleep(Duration::from_secs(1)).await;
        if v.net.peers().contains(&x) {
            problems.push("V lists X although only the adversary (without X's key) connected".into());
        }
        // ---- adversary, if admitted (as Y), sends a request claiming to be X
        if let Some(conn) = &adv_conn {
            if let Ok((mut tx, mut rx)) = conn.open_bi().await {
                let spec = hostile_spec(&x, seed);
                let hv: Vec<(String, String)> = spec.headers.iter().map(|(k, v)| (k.clone(), v.clone())).collect();
                let bytes = refwire::encode_request(&spec.route, &hv, &spec.body);
                let _ = tx.write_all(&bytes).await;
                let _ = tx.finish();
                let _ = tokio::time::timeout(Duration::from_secs(5), rx.read_to_end(1 << 20)).await;
            }
        }
        // ---- phase 2: honest V <-> H traffic whose content names other identities
        if std::env::var("VERIF_DEBUG").is_ok() { eprintln!("t={} phase 2", w.now()); }
        let mut honest_ok = 0;
        if v.net.connect_with_peer_id(h.addr, x).await.is_ok() {
            for (i, claim) in [y, v.peer_id, x, PeerId([0; 32])].iter().enumerate() {
                let spec = hostile_spec(claim, seed + i as u64);
                if std::env::var("VERIF_DEBUG").is_ok() { eprintln!("t={} rpc {i}", w.now()); }
                let (_, r1) = world::rpc(&w.log, &v.net, v.idx, x, &spec).await;
                if std::env::var("VERIF_DEBUG").is_ok() { eprintln!("t={} rpc {i} back", w.now()); }
                let (_, r2) = world::rpc(&w.log, &h.net, h.idx, v.peer_id, &spec).await;
                if let Ok(r) = &r1 {
                    honest_ok += 1;
                    if r.peer_id() != Some(&x) {
                        problems.push(format!("response from H attributed to {:?}", r.peer_id().map(pid_hex)));
                    }
                }
                if let Ok(r) = &r2 {
                    honest_ok += 1;
                    if r.peer_id() != Some(&v.peer_id) {
                        problems.push(format!("response from V attributed to {:?}", r.peer_id().map(pid_hex)));
                    }
                }
            }
        }
        tokio::time::sleep(Duration::from_millis(500)).await;
        // ---- phase 3 (one scenario in three): one ip:port, two identities in succession.  An honest
        // node Z1 talks to V from address R and shuts down; a different honest node Z2 then comes up on
        // the same address R and talks to V.  Whatever V remembers about R, each connection carries
        // the identity its own handshake authenticated.
        let mut reuse_addr: std::net::SocketAddr = "127.0.0.1:1".parse().unwrap(); // set when the first party is up
        let mut reuse: Option<(PeerId, PeerId, u64)> = None; // (z1, z2, instant of the switch)
        let mut reuse_ids: Vec<PeerId> = Vec::new();
        let mut reuse_stage = 0u64;
        if idx % 3 == 0 {
            let (k1, k2) = (w.gen_key(), w.gen_key());
            let mut c1 = NodeCfg::new(k1);
            c1.config.shutdown_idle_timeout_ms = Some(200);
            let started = w.start_node(c1);
            if let (Err(e), true) = (&started, std::env::var("VERIF_DEBUG").is_ok()) {
                eprintln!("reuse phase: first party did not start: {e:#}");
            }
            if let Ok(z1) = started {
                let z1_id = z1.peer_id;
                reuse_ids.push(z1_id);
                reuse_addr = z1.addr;
                reuse_stage = 1;
                let mut ok1 = false;
                if z1.net.connect(v.addr).await.is_ok() {
                    let (_, r) = world::rpc(&w.log, &z1.net, z1.idx, v.peer_id, &hostile_spec(&x, seed ^ 0x31)).await;
                    ok1 = r.is_ok();
                    let (_, r) = world::rpc(&w.log, &v.net, v.idx, z1_id, &hostile_spec(&y, seed ^ 0x32)).await;
                    if let Ok(r) = &r {
                        if r.peer_id() != Some(&z1_id) {
                            problems.push(format!("response from the first party at {reuse_addr} attributed to {:?}", r.peer_id().map(pid_hex)));
                        }
                    }
                }
                let _ = tokio::time::timeout(Duration::from_secs(5), z1.net.shutdown()).await;
                drop(z1);
                tokio::time::sleep(Duration::from_millis(300)).await;
                let t_switch = w.now();
                if ok1 {
                    reuse_stage = 2;
                }
                let mut c2 = NodeCfg::new(k2);
                c2.bind = Some(reuse_addr);
                // (the address may still be held by the old endpoint's draining connections: then this
                // phase simply does not take place)
                if let (true, Ok(z2)) = (ok1, w.start_node(c2)) {
                    let z2_id = z2.peer_id;
                    reuse_ids.push(z2_id);
                    reuse = Some((z1_id, z2_id, t_switch));
                    match z2.net.connect(v.addr).await {
                        Ok(p) if p != v.peer_id => problems.push("the second party's dial to V returned another identity".into()),
                        Ok(_) => {
                            let (_, r) = world::rpc(&w.log, &z2.net, z2.idx, v.peer_id, &hostile_spec(&z1_id, seed ^ 0x33)).await;
                            let _ = r;
                            if !v.net.peers().contains(&z2_id) {
                                problems.push(format!("V does not list the party that now holds {reuse_addr} under its own identity"));
                            }
                            // (whether V still lists the first party is a matter of when its close or the
                            // idle timeout reaches V - C09's subject - and not judged here)
                            let (_, r) = world::rpc(&w.log, &v.net, v.idx, z2_id, &hostile_spec(&z1_id, seed ^ 0x34)).await;
                            if let Ok(r) = &r {
                                if r.peer_id() != Some(&z2_id) {
                                    problems.push(format!("response from the second party at {reuse_addr} attributed to {:?}", r.peer_id().map(pid_hex)));
                                }
                            }
                        }
                        Err(_) => {}
                    }
                    tokio::time::sleep(Duration::from_millis(200)).await;
                    keep_nodes.push(z2);
                }
            }
        }
        // ---- O3 over everything observed
        let g = w.log.lock();
        let mut attributions = 0u64;
        for s in &g.starts {
            let Some(addr) = s.remote_addr else { continue };
            // the owner of the re-used address depends on the instant
            let reuse_owner = match reuse {
                Some((z1, z2, t)) if addr == reuse_addr => Some(if s.t_start < t { z1 } else { z2 }),
                _ => None,
            };
            let Some(owner) = w.registry.get(&addr) else {
                problems.push(format!("request from unregistered address {addr}"));
                continue;
            };
            let owner_id = reuse_owner.unwrap_or(owner.peer_id);
            attributions += 1;
            if s.from_full != Some(owner_id.0) {
                problems.push(format!(
                    "handler at node {} saw peer_id {:?} for a request from {addr}, whose owner holds {}",
                    s.node, s.from, pid_hex(&owner_id)
                ));
            }
        }
        // events at V: X may only appear after phase 2 began; adversary may appear only as Y
        let mut ids_announced = std::collections::BTreeSet::new();
        for node in [v.idx, h.idx] {
            for e in g.events.get(&node).map(|v| v.as_slice()).unwrap_or(&[]) {
                if let PeerEvent::NewPeer(p) = &e.ev {
                    ids_announced.insert(*p);
                    attributions += 1;
                }
            }
        }
        for p in &ids_announced {
            if *p != x && *p != y && *p != v.peer_id && !reuse_ids.contains(p) {
                problems.push(format!("NewPeer for unknown identity {}", pid_hex(p)));
            }
        }
        let expect_admit = matches!(action, 2 | 6 | 9 | 10 | 11);
        if admitted_as == Some(true) && !expect_admit {
            // admitted although the handshake should have failed: must at least not be X
            if ids_announced.contains(&x) && honest_ok == 0 {
                problems.push("adversary admitted and X announced".into());
            }
        }
        let sample = json!({
            "part": "end-to-end", "scenario": idx, "seed": seed, "action": action_name, "lossy": lossy,
            "adversary_admitted": admitted_as, "x": pid_hex(&x), "y": pid_hex(&y),
            "handler_attributions_checked": attributions, "honest_rpcs_ok": honest_ok,
            "events_v": format!("{:?}", g.events.get(&v.idx).map(|v| v.iter().map(|e| format!("{:?}", e.ev).chars().take(28).collect::<String>()).collect::<Vec<_>>())),
        });
        drop(g);
        let res = if !problems.is_empty() {
            let mut wit = sample.clone();
            wit["problems"] = json!(problems);
            ScenarioResult::violated(problems[0].clone(), wit)
        } else if honest_ok == 0 && !lossy {
            ScenarioResult::inconclusive("no honest rpc succeeded")
        } else {
            ScenarioResult::held(format!("e2e {action_name} admitted={admitted_as:?} lossy={lossy}")).with_sample(sample)
        };
        w.close();
        let mut res = res
            .count("attributions_checked", attributions)
            .count("e2e_scenarios", 1)
            .count("address_reuse_phases", reuse.is_some() as u64)
            .count(&format!("address_reuse_stage_{reuse_stage}"), 1)
            .count(&format!("adv:{action_name}:admitted={:?}", admitted_as.unwrap_or(false)), 1);
        if admitted_as == Some(true) {
            res.add("adversary_admitted_as_own_identity", 1);
        } else {
            res.add("adversary_rejected", 1);
        }
        res
    })
}

pub fn run(ctx: &Ctx) -> i32 {
    let tier = ctx.tier;
    let n_comp = tier.pick(24, 64);
    let n_e2e = tier.pick(3_000, 60_000);
    let full = tier == runner::Tier::Thorough;
    let cfg = RunCfg {
        property: "C01",
        tier,
        seed: ctx.seed,
        scenarios: n_comp + n_e2e,
        threads: super::threads(),
        watchdog: Duration::from_secs(600),
        budget: Duration::from_secs(tier.pick(150, 1500)),
        only: ctx.only,
    };
    let summary: Summary = runner::run_scenarios(&cfg, move |i, s| {
        if i < n_comp {
            component_scenario(i, s, full && i < 4)
        } else {
            e2e_scenario(i - n_comp, s)
        }
    });
    runner::finish(Report {
        property: "C01",
        tier,
        seed: ctx.seed,
        level: "exploration",
        rule: "two scenario kinds. verifier-level: per seed two key pairs, ~12 certificate classes (replayed, re-signed, planted key bytes, expired, CA, ECDSA, truncations, garbage, single-byte mutations of a valid certificate) x 3 verifiers x 2 signing keys, oracle = accepted cert AND accepted TLS1.3 signature by key K implies attributed PeerId = pub(K); end-to-end: an adversary endpoint (holding key Y only) dials / is dialed by real Networks with 10 hostile identities, interleaved with honest RPCs whose content names other identities; oracle = every PeerId attributed in handlers, responses, events and dial results equals the ground-truth owner of the remote fabric address. distinct by (certificate class set | adversary action, admitted?, loss) The planted-key class carries the other party's complete SubjectPublicKeyInfo byte for byte before the real one (serial number, BMPString name attribute) and after it (extension). One end-to-end scenario in three adds an address re-use phase: an honest node talks to V and shuts down, a different honest node comes up on the same ip:port and talks to V; every attribution at that address is judged against the identity that held it at that instant.".into(),
        assumptions: vec![
            "Ed25519/TLS 1.3 cryptographic strength assumed; adversary limited to what rustls' public traits and DER splicing can express".into(),
        ],
        summary,
        extra: Default::default(),
        exhaustive: None,
        min_signatures: 8,
        required_counters: vec!["verifier_inputs", "mislabelled_or_junk_signature_checks", "accepted_and_signed", "attributions_checked", "adversary_rejected", "adversary_admitted_as_own_identity"],
    })
}
