//! C02 – RPC delivery integrity, pairing and at-most-once handling.

use super::Ctx;
use crate::{
    fabric::LinkParams,
    runner::{self, Report, RunCfg, ScenarioResult},
    world::{self, gen_bytes, Headers, NodeCfg, RpcSpec, Script, World},
};
use rand::{rngs::StdRng, seq::SliceRandom, Rng, SeedableRng};
use serde_json::json;
use std::time::Duration;

pub fn gen_headers(rng: &mut StdRng, max: usize) -> Headers {
    let n = match rng.gen_range(0..10) {
        0..=3 => 0,
        4..=7 => rng.gen_range(1..=4),
        8 => rng.gen_range(5..=16),
        _ => rng.gen_range(17..=max.max(17)),
    };
    let mut h = Headers::new();
    for i in 0..n {
        let key = match rng.gen_range(0..8) {
            0 if i == 0 => "k".to_owned(), // shortest key we generate ("" is reserved below)
            1 => format!("k{i}-ключ-键"),
            2 => format!("k{i}\0nul"),
            _ => format!("k{i}-{}", rng.gen::<u32>()),
        };
        let val = match rng.gen_range(0..10) {
            0 => String::new(),
            1 => "ü".repeat(rng.gen_range(1..200)),
            3 => {
                let sweep = rng.gen_range(0..4096);
                super::c06::hostile_text(rng, sweep, "")
            }
            2 => {
                let l = rng.gen_range(1_000..70_000);
                (0..l).map(|j| (b'a' + (j % 26) as u8) as char).collect()
            }
            _ => format!("v{}", rng.gen::<u64>()),
        };
        h.insert(key, val);
    }
    if rng.gen_range(0..6) == 0 {
        h.insert(String::new(), "empty-key".into());
    }
    h
}

pub fn gen_route(rng: &mut StdRng) -> String {
    match rng.gen_range(0..10) {
        0 => String::new(),
        1 => "/".into(),
        2 => format!("/svc.{}/Method{}", rng.gen::<u16>(), rng.gen::<u8>()),
        3 => "/日本語/ルート".into(),
        4 => "no-leading-slash".into(),
        5 => format!("/{}", "x".repeat(rng.gen_range(100..5000))),
        6 => "/a//b/../c%2F\0".into(),
        7 => {
            // any mix of 1-4 byte UTF-8 sequences, a wide character across every byte offset < 300
            let sweep = rng.gen_range(0..4096);
            super::c06::hostile_text(rng, sweep, "/")
        }
        _ => format!("/r{}", rng.gen::<u32>()),
    }
}

pub fn gen_size(rng: &mut StdRng, max: usize) -> usize {
    let s = match rng.gen_range(0..20) {
        0 => 0,
        1 => 1,
        2..=5 => rng.gen_range(2..200),
        6..=9 => {
            // packet-boundary sizes
            let k: usize = rng.gen_range(1..40);
            (1200 * k + rng.gen_range(0..3usize)).saturating_sub(1)
        }
        10..=14 => rng.gen_range(200..20_000),
        15..=17 => rng.gen_range(20_000..300_000),
        18 => {
            // at and around powers of two (internal thresholds sit there)
            let k = rng.gen_range(10..=22u32);
            ((1usize << k) + rng.gen_range(0..3usize) - 1).min(max)
        }
        _ => rng.gen_range(300_000..=max.max(300_001)),
    };
    s.min(max)
}

fn fault_class(rng: &mut StdRng) -> (&'static str, LinkParams, bool) {
    let ms = Duration::from_millis;
    match rng.gen_range(0..6) {
        0 => ("clean", LinkParams::fixed(ms(2)), false),
        1 => (
            "reorder",
            LinkParams { latency_min: ms(1), latency_max: ms(rng.gen_range(5..200)), loss: 0.0, dup: 0.0 },
            false,
        ),
        2 => (
            "loss",
            LinkParams { latency_min: ms(1), latency_max: ms(10), loss: rng.gen_range(0.01..0.3), dup: 0.0 },
            false,
        ),
        3 => (
            "dup",
            LinkParams { latency_min: ms(1), latency_max: ms(10), loss: 0.0, dup: rng.gen_range(0.01..0.2) },
            false,
        ),
        4 => (
            "loss+dup+reorder",
            LinkParams { latency_min: ms(1), latency_max: ms(rng.gen_range(5..100)), loss: rng.gen_range(0.01..0.2), dup: rng.gen_range(0.01..0.2) },
            false,
        ),
        _ => (
            "blackouts",
            LinkParams { latency_min: ms(1), latency_max: ms(20), loss: 0.02, dup: 0.02 },
            true,
        ),
    }
}

pub fn scenario(idx: usize, seed: u64, max_body: usize, max_conc: usize) -> ScenarioResult {
    runner::sim_block_on(|| async move {
        let mut w = World::new(seed);
        let mut rng = StdRng::seed_from_u64(seed ^ 0xc02);
        let n_nodes = rng.gen_range(2..=3);
        let mut nodes = Vec::new();
        for _ in 0..n_nodes {
            let k = w.gen_key();
            let mut c = NodeCfg::new(k);
            let mut q = anemo::QuicConfig::default();
            q.max_idle_timeout_ms = Some(30_000);
            q.keep_alive_interval_ms = Some(5_000);
            if rng.gen_bool(0.3) {
                q.max_concurrent_bidi_streams = Some(rng.gen_range(1..20));
            }
            c.config.quic = Some(q);
            // local default deadlines far beyond the scenario's horizon: they must not change what
            // the handler sees of the request
            if rng.gen_bool(0.5) {
                c.config.inbound_request_timeout_ms = Some(rng.gen_range(3_600_000..7_200_000));
            }
            if rng.gen_bool(0.3) {
                c.config.outbound_request_timeout_ms = Some(rng.gen_range(3_600_000..7_200_000));
            }
            nodes.push(w.start_node(c).unwrap());
        }
        // connect a chain 0-1(-2)
        for i in 1..n_nodes {
            if nodes[i - 1].net.connect(nodes[i].addr).await.is_err() {
                w.close();
                return ScenarioResult::inconclusive("setup dial failed");
            }
        }
        let (fclass, params, blackouts) = fault_class(&mut rng);
        w.fabric.set_default_link(params);

        let conc = match rng.gen_range(0..4) {
            0 => 1,
            1 => rng.gen_range(2..10),
            2 => rng.gen_range(10..50),
            _ => rng.gen_range(50..=max_conc.max(51)),
        }
        .min(max_conc);
        let big_budget = 24usize << 20; // total bytes per scenario
        let mut total = 0usize;
        let mut tasks = Vec::new();
        let mut max_seen = 0usize;
        for i in 0..conc {
            // pick a connected pair and a direction
            let e = rng.gen_range(1..n_nodes);
            let (from, to) = if rng.gen_bool(0.5) { (e - 1, e) } else { (e, e - 1) };
            let mut req_len = gen_size(&mut rng, max_body);
            let mut resp_len = gen_size(&mut rng, max_body);
            if total + req_len + resp_len > big_budget {
                req_len %= 2000;
                resp_len %= 2000;
            }
            total += req_len + resp_len;
            max_seen = max_seen.max(req_len).max(resp_len);
            let status = *[200u16, 200, 200, 400, 404, 408, 429, 500, 505, 520].choose(&mut rng).unwrap();
            let mut hdrs = gen_headers(&mut rng, 64);
            match rng.gen_range(0..12) {
                // far-away deadlines in every spelling a caller may use, and unparsable ones
                0 => { hdrs.insert("timeout".into(), "7200000000000".into()); }
                1 => { hdrs.insert("timeout".into(), "+7200000000000".into()); }
                2 => { hdrs.insert("timeout".into(), "0007200000000000".into()); }
                3 => { hdrs.insert("timeout".into(), u64::MAX.to_string()); }
                4 => { hdrs.insert("timeout".into(), ["never", "", "18446744073709551616", "7200s"].choose(&mut rng).unwrap().to_string()); }
                _ => {}
            }
            let spec = RpcSpec {
                route: gen_route(&mut rng),
                headers: hdrs,
                body: gen_bytes(seed.wrapping_add(i as u64), req_len),
                script: Some(Script {
                    delay_us: if rng.gen_bool(0.3) { 0 } else { rng.gen_range(0..5_000_000) },
                    resp_len: resp_len as u32,
                    status,
                    nhdr: rng.gen_range(0..6),
                    seed: rng.gen::<u64>() | 1,
                }),
            };
            let log = w.log.clone();
            let net = nodes[from].net.clone();
            let node_idx = nodes[from].idx;
            let peer = nodes[to].peer_id;
            let start_delay = Duration::from_micros(rng.gen_range(0..200_000));
            tasks.push(tokio::spawn(async move {
                tokio::time::sleep(start_delay).await;
                world::rpc(&log, &net, node_idx, peer, &spec).await
            }));
        }
        // blackouts: 2 s partitions now and then while traffic is in flight
        let fab = w.fabric.clone();
        let pair = (nodes[0].addr, nodes[1].addr);
        let blackout_task = if blackouts {
            Some(tokio::spawn(async move {
                for _ in 0..3 {
                    tokio::time::sleep(Duration::from_millis(700)).await;
                    fab.partition(pair.0, pair.1);
                    tokio::time::sleep(Duration::from_secs(2)).await;
                    fab.heal(pair.0, pair.1);
                }
            }))
        } else {
            None
        };
        let all = futures::future::join_all(tasks);
        let done = tokio::time::timeout(Duration::from_secs(1800), all).await.is_ok();
        if let Some(t) = blackout_task {
            t.abort();
        }
        // look-alike requests: pairs on one route, with the same number of headers, whose header maps
        // differ only in WHERE names end and values begin (the multiset of name||value strings is
        // equal), in which value belongs to which name, or in one byte of a long value; sent back
        // to back and concurrently from one node.  Anything that identifies, caches, interns or
        // compares requests by a digest of their parts must still deliver each one exactly.
        let mut lookalikes = 0u64;
        if rng.gen_bool(0.4) {
            let from = rng.gen_range(0..n_nodes);
            let to = if from == 0 { 1 } else { from - 1 };
            let route = gen_route(&mut rng);
            let script = Script { delay_us: 0, resp_len: 10, status: 200, nhdr: 0, seed: 5 };
            for k in 0..rng.gen_range(2..8usize) {
                let (a, b) = (w.next_id(), w.next_id());
                let (sa, sb) = (a.to_string(), b.to_string());
                let mut ha = Headers::new();
                let mut hb = Headers::new();
                match k % 4 {
                    0 => {
                        // split points shifted; the unique-id headers are mirrored as well so that
                        // the two maps consist of exactly the same name||value strings
                        let word = format!("shard{}", rng.gen_range(10..99));
                        let cut = rng.gen_range(1..word.len());
                        ha.insert(word[..cut].to_owned(), word[cut..].to_owned());
                        hb.insert(word[..cut - 1].to_owned() + "", word[cut - 1..].to_owned());
                        let ka = rng.gen_range(0..sb.len());
                        ha.insert(format!("{}{}", world::H_ID, &sb[..ka + 1]), sb[ka + 1..].to_owned());
                        let kb = rng.gen_range(0..sa.len());
                        hb.insert(format!("{}{}", world::H_ID, &sa[..kb + 1]), sa[kb + 1..].to_owned());
                    }
                    1 => {
                        // values swapped between two names
                        ha.insert("k1".into(), "v1".into());
                        ha.insert("k2".into(), "v2".into());
                        hb.insert("k1".into(), "v2".into());
                        hb.insert("k2".into(), "v1".into());
                    }
                    2 => {
                        // one byte apart, far into a long value
                        let l = rng.gen_range(100..5_000);
                        let v: String = (0..l).map(|j| (b'a' + (j % 26) as u8) as char).collect();
                        let mut v2 = v.clone().into_bytes();
                        let at = rng.gen_range(0..l);
                        v2[at] = if v2[at] == b'z' { b'a' } else { v2[at] + 1 };
                        ha.insert("long".into(), v);
                        hb.insert("long".into(), String::from_utf8(v2).unwrap());
                    }
                    _ => {
                        // name/value exchanged, and empty halves
                        ha.insert("ab".into(), "".into());
                        hb.insert("a".into(), "b".into());
                        ha.insert("x".into(), "yz".into());
                        hb.insert("xy".into(), "z".into());
                    }
                }
                let spa = RpcSpec { route: route.clone(), headers: ha, body: gen_bytes(a, 33), script: Some(script.clone()) };
                let spb = RpcSpec { route: route.clone(), headers: hb, body: gen_bytes(a, 33), script: Some(script.clone()) };
                let (log, net, ni, peer) = (w.log.clone(), nodes[from].net.clone(), nodes[from].idx, nodes[to].peer_id);
                let lim = Duration::from_secs(120);
                if rng.gen_bool(0.6) {
                    let _ = tokio::time::timeout(lim, world::rpc_with_id(&log, &net, ni, peer, a, &spa)).await;
                    let _ = tokio::time::timeout(lim, world::rpc_with_id(&log, &net, ni, peer, b, &spb)).await;
                } else {
                    let _ = tokio::time::timeout(lim, futures::future::join(world::rpc_with_id(&log, &net, ni, peer, a, &spa), world::rpc_with_id(&log, &net, ni, peer, b, &spb))).await;
                }
                lookalikes += 2;
            }
        }
        let g = w.log.lock();
        let mut stats = world::DeliveryStats::default();
        let problems = world::check_delivery(&g, &mut stats);
        // out-of-order completions: handler finish order vs call order
        let mut order: Vec<(u64, u64)> = g
            .calls
            .iter()
            .filter_map(|c| c.t_ret.map(|t| (c.t_call, t)))
            .collect();
        order.sort();
        let mut inversions = 0u64;
        for i in 1..order.len() {
            if order[i].1 < order[i - 1].1 {
                inversions += 1;
            }
        }
        let fstats = w.fabric.stats();
        let mut err_kinds: std::collections::BTreeMap<String, u64> = Default::default();
        for c in &g.calls {
            if let Some(world::Outcome::Err(e)) = &c.outcome {
                *err_kinds.entry(e.chars().take(60).collect()).or_default() += 1;
            }
        }
        if std::env::var("VERIF_DEBUG").is_ok() && !err_kinds.is_empty() {
            eprintln!("scn {idx} fault={fclass} params={params:?} conc={conc} max_body={max_seen} errs={err_kinds:?}");
        }
        let sample = json!({
            "scenario": idx, "seed": seed, "nodes": n_nodes, "concurrent_rpcs": conc,
            "fault_class": fclass, "max_body": max_seen, "total_bytes": total,
            "rpc_ok": stats.ok, "rpc_err": stats.err, "rpc_open": stats.open,
            "handler_starts": stats.starts, "out_of_order_completions": inversions,
            "fabric": fstats,
            "example_call": g.calls.first().map(|c| json!({"id": c.id, "route": c.route.chars().take(40).collect::<String>(), "headers": c.headers.len(), "body_len": c.body_len, "outcome": format!("{:?}", c.outcome).chars().take(200).collect::<String>()})),
        });
        let res = if !problems.is_empty() {
            let mut wit = sample.clone();
            wit["problems"] = json!(problems.iter().take(10).collect::<Vec<_>>());
            ScenarioResult::violated(problems[0].clone(), wit)
        } else if !done {
            ScenarioResult::inconclusive("rpcs still open at the virtual deadline")
        } else if stats.ok == 0 {
            ScenarioResult::inconclusive("no rpc completed successfully")
        } else {
            let conc_b = match conc { 1 => "1", 2..=9 => "2-9", 10..=49 => "10-49", _ => "50+" };
            let body_b = match max_seen { 0..=1199 => "<1.2k", 1200..=65_535 => "<64k", 65_536..=1_048_575 => "<1M", _ => ">=1M" };
            let inv_b = match inversions { 0 => "0", 1..=9 => "1-9", _ => "10+" };
            ScenarioResult::held(format!("conc={conc_b} body={body_b} fault={fclass} ooo={inv_b}"))
                .with_sample(sample)
        };
        drop(g);
        w.close();
        let mut res = res;
        for (k, n) in err_kinds {
            res.add(&format!("err:{k}"), n);
        }
        res.count("rpcs", stats.calls as u64)
            .count("rpc_ok", stats.ok as u64)
            .count("rpc_err", stats.err as u64)
            .count("handler_starts", stats.starts as u64)
            .count("lookalike_requests", lookalikes)
            .count("out_of_order_completions", inversions)
            .count("datagrams_sent", fstats.sent)
            .count("datagrams_lost", fstats.lost)
            .count("datagrams_duplicated", fstats.duplicated)
            .count("payload_bytes", total as u64)
    })
}

pub fn run(ctx: &Ctx) -> i32 {
    let tier = ctx.tier;
    let cfg = RunCfg {
        property: "C02",
        tier,
        seed: ctx.seed,
        scenarios: tier.pick(1_600, 30_000),
        threads: super::threads(),
        watchdog: Duration::from_secs(300),
        budget: Duration::from_secs(tier.pick(120, 1200)),
        only: ctx.only,
    };
    let (max_body, max_conc) = tier.pick((5 << 20, 200), (16 << 20, 200));
    // the first scenarios are real-socket multi-thread stress runs (E2), the rest simulated
    let n_real = tier.pick(2, 12);
    let real_ms = tier.pick(2_500, 15_000);
    let summary = runner::run_scenarios(&cfg, move |i, s| {
        if i < n_real {
            super::realnet::scenario(i, s, real_ms, super::realnet::Judge::Delivery)
        } else {
            scenario(i, s, max_body, max_conc)
        }
    });
    runner::finish(Report {
        property: "C02",
        tier,
        seed: ctx.seed,
        level: "exploration",
        rule: "E2: 2 (thorough 12) real-socket stress runs: 3 Networks on UDP loopback, a 6-worker runtime, 18 RPC generators with 24 calls in flight each (bodies up to 200 KB), concurrent dial/disconnect churn, 2.5 s (thorough 15 s) each, same oracle. E1: scenario = 2-3 real Networks on the fabric, 1-200 concurrent RPCs in both directions with unique ids, seeded sizes (0 B - multi-MB, packet-boundary biased), header maps, routes, statuses, randomised handler completion order, one fault class; oracle = offline check of the merged call/return/start/finish history (at-most-once, request integrity, response integrity+pairing, no response from nowhere); non-trivial = at least one RPC succeeded; distinct by (concurrency bucket, max body bucket, fault class, out-of-order bucket) In 40% of the E1 scenarios 2-7 look-alike request pairs follow (one route, same header count; header maps that differ only in where names end and values begin - equal multisets of name||value incl. mirrored id headers -, swapped values, one byte of a long value, name/value exchanged), back to back and concurrently from one node; routes and header text also come from a hostile-text generator (1-4 byte UTF-8 across every byte offset < 300).".into(),
        assumptions: vec![
            "body equality is decided on (length, 64-bit SipHash)".into(),
            "loss/reordering/duplication are injected below QUIC on the simulated fabric".into(),
        ],
        summary,
        extra: Default::default(),
        exhaustive: None,
        min_signatures: 8,
        required_counters: vec!["rpc_ok", "handler_starts", "out_of_order_completions", "realnet_rpcs_ok"],
    })
}
