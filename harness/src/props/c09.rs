//! C09 – connection views are eventually mutual; disconnects propagate (bounded: T_q).

use super::{history, Ctx};
use crate::runner::{self, Report, RunCfg};
use std::time::Duration;

pub fn run(ctx: &Ctx) -> i32 {
    let tier = ctx.tier;
    let cfg = RunCfg {
        property: "C09",
        tier,
        seed: ctx.seed,
        scenarios: tier.pick(8_000, 200_000),
        threads: super::threads(),
        watchdog: Duration::from_secs(180),
        budget: Duration::from_secs(tier.pick(100, 1000)),
        only: ctx.only,
    };
    let max_steps = tier.pick(60, 200);
    let summary = runner::run_scenarios(&cfg, move |i, s| {
        history::scenario(i, s, history::Mode::C09, max_steps)
    });
    runner::finish(Report {
        property: "C09",
        tier,
        seed: ctx.seed,
        level: "exploration",
        rule: "scenario = 3-5 real Networks on the fabric, idle timeout 2-10 s, keep-alive off/shorter/longer than it; a seeded history of 10-60 (thorough 200) steps from {dial, pinned dial, disconnect, restart on same key+address, partition, one-directional cut, heal, 100% loss burst 0.5-30 s, idle, rpc, quiescent point}; 'eventually' is restated as T_q = idle_timeout + keep_alive + 3*max latency + 1 s of fault-free virtual time; oracle at quiescent points: A lists B iff B lists A, every listed peer answers an RPC; at disconnect(): peer gone at once, next event LostPeer(Requested), rpc fails; distinct by (n, idle timeout, keep-alive class, #LostPeer, restarts, partitions) One history in eight supplies a QUIC config that leaves the idle timeout unspecified (documented default 30 s, which T_q then uses).".into(),
        assumptions: vec!["liveness clauses are decided as bounded progress in virtual time".into()],
        summary,
        extra: Default::default(),
        exhaustive: None,
        min_signatures: 10,
        required_counters: vec!["quiescent_points", "mutual_pairs_checked", "quiescent_rpcs_ok", "disconnects_of_listed_peer", "lost_peer_events", "restarts", "partitions"],
    })
}
