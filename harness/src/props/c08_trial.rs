//! C08 / E2: one tear-down or re-bind trial, run in a sub-process on real UDP sockets and a
//! multi-threaded runtime.  The parent (`c08.rs`) interprets stderr, exit status and timing.

use crate::world::{HarnessService, Log, RpcSpec, Script};
use anemo::{
    types::{PeerAffinity, PeerInfo},
    Network,
};
use rand::{rngs::StdRng, Rng, SeedableRng};
use std::{
    sync::{
        atomic::{AtomicBool, AtomicU64, Ordering},
        Arc,
    },
    time::{Duration, Instant},
};

/// Is a UDP socket bound to 127.0.0.1:`port` held by this very process?  (Other trial processes
/// bind ephemeral ports all the time and may grab a port the moment it is freed.)
fn port_held_by_self(port: u16) -> Option<bool> {
    let udp = std::fs::read_to_string("/proc/self/net/udp").ok()?;
    let want = format!(":{port:04X}");
    let mut inodes = Vec::new();
    for l in udp.lines().skip(1) {
        let f: Vec<&str> = l.split_whitespace().collect();
        if f.len() > 9 && f[1].ends_with(&want) {
            inodes.push(f[9].to_owned());
        }
    }
    if inodes.is_empty() {
        return None;
    }
    for e in std::fs::read_dir("/proc/self/fd").ok()?.flatten() {
        if let Ok(t) = std::fs::read_link(e.path()) {
            let t = t.to_string_lossy().into_owned();
            if inodes.iter().any(|i| t == format!("socket:[{i}]")) {
                return Some(true);
            }
        }
    }
    Some(false)
}

fn start_net(log: &Arc<Log>, idx: usize, rng: &mut StdRng, idle_ms: u64) -> (Network, Arc<std::sync::atomic::AtomicUsize>) {
    let (svc, live) = HarnessService::new(idx, log.clone());
    let mut key = [0u8; 32];
    rng.fill(&mut key);
    let mut cfg = anemo::Config::default();
    cfg.connectivity_check_interval_ms = Some(50);
    cfg.connect_timeout_ms = Some(500);
    cfg.shutdown_idle_timeout_ms = Some(idle_ms);
    cfg.connection_backoff_ms = Some(10);
    cfg.max_connection_backoff_ms = Some(50);
    Network::bind("127.0.0.1:0")
        .config(cfg)
        .server_name("verif")
        .private_key(key)
        .start(svc)
        .map(|n| (n, live))
        .expect("start network")
}

/// mode: 0 = drop runtime with handles alive, 1 = drop handles then runtime, 2 = shutdown() in
/// progress when the runtime is dropped, 3 = shutdown() completed, then drop, 4 = re-bind check.
pub fn run_trial(seed: u64, delay_us: u64, mode: u8, nets: usize) -> i32 {
    crate::runner::set_panic_quiet(false);
    let mut rng = StdRng::seed_from_u64(seed);
    // mode 4 waits out the drain of connections that were still being established (3 x PTO, about
    // 3 s) so that the address must be free when shutdown() returns; the other modes use a short
    // bound so that the bound itself is exercised
    let idle_ms: u64 = if mode == 4 { 6_000 } else { 300 };
    let rt = tokio::runtime::Builder::new_multi_thread()
        .worker_threads(4)
        .enable_all()
        .build()
        .unwrap();
    let log = Log::new();
    let stop = Arc::new(AtomicBool::new(false));
    let rpcs = Arc::new(AtomicU64::new(0));
    let (networks, lives): (Vec<Network>, Vec<Arc<std::sync::atomic::AtomicUsize>>) = {
        let _g = rt.enter();
        (0..nets).map(|i| start_net(&log, i, &mut rng, idle_ms)).unzip()
    };
    let addrs: Vec<_> = networks.iter().map(|n| (n.peer_id(), n.local_addr())).collect();
    // background dialing between everybody + a black-holed High peer (pending dials)
    for (i, n) in networks.iter().enumerate() {
        for (j, (p, a)) in addrs.iter().enumerate() {
            if i != j && (i + j) % 2 == 0 {
                n.known_peers().insert(PeerInfo { peer_id: *p, affinity: PeerAffinity::High, address: vec![(*a).into()] });
            }
        }
        let mut dead = [0u8; 32];
        rng.fill(&mut dead);
        n.known_peers().insert(PeerInfo {
            peer_id: anemo::PeerId(dead),
            affinity: PeerAffinity::High,
            address: vec!["127.0.0.1:9".into(), format!("localhost:{}", 1 + i).into()],
        });
    }
    // continuous explicit dials and rpcs
    for (i, n) in networks.iter().enumerate() {
        let n = n.clone();
        let addrs = addrs.clone();
        let (stop, rpcs, log) = (stop.clone(), rpcs.clone(), log.clone());
        let mut r = StdRng::seed_from_u64(seed ^ (i as u64) << 8);
        rt.spawn(async move {
            while !stop.load(Ordering::Relaxed) {
                let (p, a) = addrs[r.gen_range(0..addrs.len())];
                if p == n.peer_id() {
                    continue;
                }
                match r.gen_range(0..10) {
                    0 | 1 => {
                        let _ = n.connect(a).await;
                    }
                    2 => {
                        let _ = n.connect_with_peer_id(a, p).await;
                    }
                    3 => {
                        let _ = n.disconnect(p);
                    }
                    _ => {
                        let mut spec = RpcSpec::simple(r.gen_range(0..5_000), 1).with_script(Script {
                            delay_us: r.gen_range(0..3_000),
                            resp_len: r.gen_range(0..20_000),
                            status: 200,
                            nhdr: 0,
                            seed: 3,
                        });
                        if mode >= 2 && r.gen_range(0..12) == 0 {
                            // a handler that is inside a non-yielding section (blocking call, long
                            // computation) when the shutdown comes
                            spec.headers.insert("vblock".into(), r.gen_range(5_000..120_000u64).to_string());
                        }
                        let n2 = n.clone();
                        let log = log.clone();
                        let rpcs = rpcs.clone();
                        tokio::spawn(async move {
                            let (_, res) = crate::world::rpc(&log, &n2, i, p, &spec).await;
                            if res.is_ok() {
                                rpcs.fetch_add(1, Ordering::Relaxed);
                            }
                        });
                    }
                }
                tokio::time::sleep(Duration::from_micros(r.gen_range(0..300))).await;
            }
        });
    }
    // in the shutdown modes, half of the trials keep one RPC per network in flight whose handler sits
    // in a non-yielding section (20-150 ms) - so that one is running when the shutdown comes
    if mode >= 2 && seed % 2 == 0 {
        for (i, n) in networks.iter().enumerate() {
            let (n, addrs, stop, log) = (n.clone(), addrs.clone(), stop.clone(), log.clone());
            let mut r = StdRng::seed_from_u64(seed ^ 0xb10c ^ (i as u64) << 8);
            rt.spawn(async move {
                while !stop.load(Ordering::Relaxed) {
                    let (p, _) = addrs[r.gen_range(0..addrs.len())];
                    if p == n.peer_id() {
                        continue;
                    }
                    let mut spec = RpcSpec::simple(100, 1);
                    spec.headers.insert("vblock".into(), r.gen_range(20_000..150_000u64).to_string());
                    let _ = crate::world::rpc(&log, &n, i, p, &spec).await;
                    tokio::time::sleep(Duration::from_millis(1)).await;
                }
            });
        }
    }
    // two thirds of the trials start the delay clock when traffic flows (first RPC answered; bounded
    // wait), so that the tear-down lands among established connections and running handlers; the
    // rest tears down during the very first handshakes
    if seed % 3 != 0 {
        let t = Instant::now();
        while rpcs.load(Ordering::Relaxed) == 0 && t.elapsed() < Duration::from_secs(3) {
            std::thread::sleep(Duration::from_micros(200));
        }
    }
    std::thread::sleep(Duration::from_micros(delay_us));
    let mut code = 0;
    match mode {
        0 => {}
        1 => {
            stop.store(true, Ordering::SeqCst);
            drop(networks);
            std::thread::sleep(Duration::from_micros(rng.gen_range(0..2_000)));
        }
        2 => {
            for n in networks.iter().take(nets / 2 + 1) {
                let n = n.clone();
                rt.spawn(async move {
                    let _ = n.shutdown().await;
                });
            }
            std::thread::sleep(Duration::from_micros(rng.gen_range(0..3_000)));
        }
        3 | 4 => {
            stop.store(true, Ordering::SeqCst);
            let t0 = Instant::now();
            let res = rt.block_on(async {
                let log = &log;
                let futs = networks.iter().zip(lives.iter()).enumerate().map(|(i, (n, live))| async move {
                    let a = n.local_addr();
                    let t = Instant::now();
                    let r = tokio::time::timeout(Duration::from_millis(idle_ms + 5_000), n.shutdown()).await;
                    let took = t.elapsed().as_millis() as u64;
                    // every clone of the user's service has been dropped when shutdown() returns
                    let clones_live = live.load(Ordering::SeqCst);
                    // ... and so has everything those clones produced: no handler of this network is
                    // still running (neither finished nor dropped) once shutdown() has returned
                    let handlers_running = log.lock().starts.iter().filter(|s| s.node == i && s.end.is_none()).count();
                    // the address must be re-bindable at once
                    let rebind = std::net::UdpSocket::bind(a);
                    let mut rebind_ok = rebind.is_ok();
                    let mut late_ms: Option<u64> = None;
                    if !rebind_ok && port_held_by_self(a.port()) == Some(false) {
                        println!("NOTE port {} was taken by another process right after it was freed", a.port());
                        rebind_ok = true;
                    }
                    drop(rebind);
                    // (a connection that was still being established when the endpoint was closed drains
                    // for 3 x PTO, about 3 s - longer in a sanitizer build - and references the socket
                    // until then: the window must cover that to tell "released later" from "never")
                    let late_window_ms: u64 = 12_000 * std::env::var("VERIF_DELAY_SCALE").ok().and_then(|s| s.parse::<u64>().ok()).unwrap_or(1).min(3);
                    if !rebind_ok {
                        // is the old socket released a moment later, without anybody doing anything?
                        let t1 = Instant::now();
                        while t1.elapsed() < Duration::from_millis(late_window_ms) {
                            tokio::time::sleep(Duration::from_millis(5)).await;
                            if std::net::UdpSocket::bind(a).is_ok() || port_held_by_self(a.port()) == Some(false) {
                                late_ms = Some(t1.elapsed().as_millis() as u64);
                                break;
                            }
                        }
                    }
                    let late = late_ms.map(|m| m as i64).unwrap_or(-1);
                    (a, r.is_ok(), rebind_ok, n.is_closed(), n.peers().len(), n.subscribe().is_err(), n.downgrade().upgrade().is_none(), took, late, clones_live, handlers_running)
                });
                futures::future::join_all(futs).await
            });
            // the throw-away sockets every shut-down network binds (anemo's re-bind trick) get kernel-
            // chosen ports: one of them may be the port another network of this process released a
            // moment ago.  Such a collision between two networks of the trial is not a failure of the
            // first network to release its socket - it is recognised by the other network's endpoint
            // now reporting that very port as its local address.
            let now_held: Vec<u16> = networks.iter().map(|n| n.local_addr().port()).collect();
            for (a, returned, mut rebound, closed, peers, sub_err, weak_dead, took, late, clones_live, handlers_running) in res {
                if !rebound && now_held.contains(&a.port()) {
                    println!("NOTE port {} was handed by the kernel to another network of this trial as its throw-away socket", a.port());
                    rebound = true;
                }
                println!("SHUTDOWN addr={a} returned={returned} rebind_ok={rebound} closed={closed} peers={peers} subscribe_err={sub_err} weak_dead={weak_dead} took_ms={took} idle_bound_ms={idle_ms} rebind_late_ms={late} service_clones_live={clones_live} handlers_running={handlers_running}");
                // (the duration is judged in virtual time by the simulated scenarios, not here: a
                // wall-clock deadline on a loaded machine is not a verdict)
                if !(returned && rebound && closed && peers == 0 && sub_err && weak_dead && clones_live == 0 && handlers_running == 0) {
                    code = 3;
                }
            }
            println!("SHUTDOWN-ALL took_ms={}", t0.elapsed().as_millis());
        }
        _ => {}
    }
    println!("RPCS-OK {}", rpcs.load(Ordering::Relaxed));
    let t = Instant::now();
    drop(rt);
    println!("RUNTIME-DROPPED took_ms={}", t.elapsed().as_millis());
    code
}
