//! Random connection histories among several real Networks on the fabric, with two oracles:
//! C04 (listing/event-stream consistency, one live connection per identity) and
//! C09 (mutual views at quiescent points, disconnect semantics, propagation).

use crate::{
    adversary::{Adversary, CertKey},
    fabric::LinkParams,
    runner::{self, ScenarioResult},
    world::{self, pid_hex, DrainEnd, Node, NodeCfg, RpcSpec, World},
};
use anemo::{
    types::{DisconnectReason, PeerEvent},
    PeerId,
};
use rand::{rngs::StdRng, Rng, SeedableRng};
use serde_json::json;
use std::{collections::BTreeSet, net::SocketAddr, time::Duration};

#[derive(Clone, Copy, PartialEq, Eq, Debug)]
pub enum Mode {
    C04,
    C09,
}

struct Hist {
    nodes: Vec<Node>,
    c04: Vec<String>,
    c09: Vec<String>,
    trace: Vec<String>,
    inconclusive: Option<String>,
    known: Option<String>,
    counters: std::collections::BTreeMap<String, u64>,
}

impl Hist {
    fn bump(&mut self, k: &str) {
        *self.counters.entry(k.into()).or_default() += 1;
    }

    /// C04: synchronous consistency of listing and event stream on every node.
    fn check_c04(&mut self, at: &str) {
        for i in 0..self.nodes.len() {
            let n = &self.nodes[i];
            let (evs, end, errs) = n.drain();
            let listing = n.net.peers();
            let set: BTreeSet<PeerId> = listing.iter().copied().collect();
            *self.counters.entry("events_drained".into()).or_default() += evs.len() as u64;
            *self.counters.entry("listing_samples".into()).or_default() += 1;
            for e in errs {
                self.c04.push(format!("node {i} after {at}: event stream does not alternate: {e}"));
            }
            if let DrainEnd::Lagged(k) = end {
                self.inconclusive = Some(format!("subscriber lagged by {k}"));
                return;
            }
            if set.len() != listing.len() {
                self.c04.push(format!("node {i} after {at}: duplicate entries in peers()"));
            }
            if matches!(end, DrainEnd::Closed) {
                continue;
            }
            let replayed: BTreeSet<PeerId> = n.replayed().into_iter().collect();
            if replayed != set {
                self.c04.push(format!(
                    "node {i} after {at}: snapshot+events give {:?} but peers() is {:?}",
                    replayed.iter().map(pid_hex).collect::<Vec<_>>(),
                    set.iter().map(pid_hex).collect::<Vec<_>>()
                ));
            }
            if set.contains(&n.peer_id) {
                self.c04.push(format!("node {i} lists itself"));
            }
        }
    }
}

pub fn scenario(idx: usize, seed: u64, mode: Mode, max_steps: usize) -> ScenarioResult {
    runner::sim_block_on(|| async move {
        let mut w = World::new(seed);
        let mut rng = StdRng::seed_from_u64(seed ^ 0xc0409);
        let n = rng.gen_range(3..=5usize);
        // one scenario in eight leaves the idle timeout unspecified in the QUIC config it supplies
        // (keep-alive or other fields set): the documented default of 30 s must then apply
        let idle_unspecified = rng.gen_range(0..8) == 0;
        let it_ms: u64 = if idle_unspecified { 30_000 } else { *[2_000u64, 3_000, 5_000, 10_000].get(rng.gen_range(0..4)).unwrap() };
        let ka_ms: Option<u64> = match rng.gen_range(0..3) {
            0 => None,
            1 => Some(it_ms / 3),
            _ => Some(it_ms * 2),
        };
        let max_lat = Duration::from_millis(rng.gen_range(1..20));
        let base_link = LinkParams {
            latency_min: Duration::from_micros(500),
            latency_max: max_lat,
            loss: 0.0,
            dup: 0.0,
        };
        w.fabric.set_default_link(base_link);
        let debug = std::env::var("VERIF_DEBUG").is_ok();
        if debug {
            w.fabric.enable_tap(true);
        }
        let t_q = Duration::from_millis(it_ms + ka_ms.unwrap_or(0) + 1_000) + max_lat * 3;
        let limited = if rng.gen_bool(0.3) { Some(rng.gen_range(0..n)) } else { None };
        let mut h = Hist {
            nodes: Vec::new(),
            c04: vec![],
            c09: vec![],
            trace: vec![],
            inconclusive: None,
            known: None,
            counters: Default::default(),
        };
        for i in 0..n {
            let k = w.gen_key();
            let mut c = NodeCfg::new(k);
            c.config.connect_timeout_ms = Some(2_000);
            c.config.shutdown_idle_timeout_ms = Some(1_000);
            let mut q = anemo::QuicConfig::default();
            q.max_idle_timeout_ms = if idle_unspecified { None } else { Some(it_ms) };
            q.keep_alive_interval_ms = ka_ms;
            c.config.quic = Some(q);
            if limited == Some(i) {
                c.config.max_concurrent_connections = Some(1);
            }
            h.nodes.push(w.start_node(c).unwrap());
        }
        // adversary with one identity that opens duplicate connections (C04)
        let ky = w.gen_key();
        let y = world::peer_id_of_key(&ky);
        let adv_addr: SocketAddr = format!("10.70.{}.{}:4433", (idx / 250) % 250, 1 + idx % 250).parse().unwrap();
        w.registry.insert(adv_addr, world::Party { peer_id: y, key: ky, honest: false });
        let adv = Adversary::new(&w.fabric, adv_addr, None);
        let ck_y = CertKey::honest(ky, "verif");
        let mut adv_conns: Vec<(usize, quinn::Connection)> = Vec::new();

        let steps = rng.gen_range(10..=max_steps.max(11));
        let mut handles: Vec<(usize, PeerId, anemo::Peer)> = Vec::new();
        let mut faults_active = false;
        let mut last_fault_or_action = w.now();
        let mut quiescent_points = 0u64;
        for step in 0..steps {
            if h.inconclusive.is_some() || !h.c04.is_empty() || !h.c09.is_empty() {
                break;
            }
            let kind = rng.gen_range(0..100);
            let a = rng.gen_range(0..n);
            let mut b = rng.gen_range(0..n);
            if b == a {
                b = (a + 1) % n;
            }
            let label;
            if kind < 30 {
                // dial: single, or two racing dials (same direction / towards each other)
                let pinned = rng.gen_bool(0.5);
                let addr = h.nodes[b].addr;
                let pid = h.nodes[b].peer_id;
                let shape = rng.gen_range(0..10);
                let r = if shape < 6 {
                    if pinned {
                        h.nodes[a].net.connect_with_peer_id(addr, pid).await
                    } else {
                        h.nodes[a].net.connect(addr).await
                    }
                } else if shape < 8 {
                    let (r1, r2) = tokio::join!(h.nodes[a].net.connect(addr), h.nodes[a].net.connect_with_peer_id(addr, pid));
                    h.bump("racing_double_dials");
                    r1.and(r2)
                } else {
                    let back = h.nodes[a].addr;
                    let (r1, r2) = tokio::join!(h.nodes[a].net.connect(addr), h.nodes[b].net.connect(back));
                    h.bump("racing_mutual_dials");
                    r1.and(r2)
                };
                label = format!("dial {a}->{b} shape={shape} pinned={pinned} ok={}", r.is_ok());
                h.bump(if r.is_ok() { "dials_ok" } else { "dials_failed" });
                // remember a handle to the connection as the application would
                if let Some(peer) = h.nodes[a].net.peer(pid) {
                    let ida = h.nodes[a].idx;
                    handles.push((ida, pid, peer));
                    if handles.len() > 40 {
                        handles.remove(0);
                    }
                }
                last_fault_or_action = w.now();
            } else if kind < 45 {
                // explicit disconnect + its semantics
                let p = h.nodes[b].peer_id;
                let was_listed = h.nodes[a].net.peers().contains(&p);
                // bring the synchronous subscription up to date first
                h.check_c04("pre-disconnect");
                let _ = h.nodes[a].net.disconnect(p);
                let listed_after = h.nodes[a].net.peers().contains(&p);
                let (evs, _, errs) = h.nodes[a].drain();
                for e in errs {
                    h.c04.push(format!("node {a} at disconnect: {e}"));
                }
                if listed_after {
                    h.c09.push(format!("node {a} still lists {} right after disconnect()", pid_hex(&p)));
                }
                if was_listed {
                    let first = evs.iter().find(|e| matches!(e, PeerEvent::NewPeer(q) | PeerEvent::LostPeer(q, _) if *q == p));
                    match first {
                        Some(PeerEvent::LostPeer(_, DisconnectReason::Requested)) => {}
                        other => h.c09.push(format!(
                            "node {a}: disconnect({}) of a listed peer was followed by {:?} instead of LostPeer(Requested)",
                            pid_hex(&p), other
                        )),
                    }
                    // RPCs fail until a new connection exists
                    let spec = RpcSpec::simple(10, step as u64);
                    let r = tokio::time::timeout(
                        Duration::from_secs(5),
                        world::rpc(&w.log, &h.nodes[a].net, h.nodes[a].idx, p, &spec),
                    )
                    .await;
                    match r {
                        Ok((_, Ok(_))) => {
                            // a new connection may have been registered in the meantime only
                            // through an inbound dial; none is in flight in this sequential history
                            if !h.nodes[a].net.peers().contains(&p) {
                                h.c09.push(format!("node {a}: rpc to {} succeeded after disconnect without a new connection", pid_hex(&p)));
                            }
                        }
                        _ => {}
                    }
                    h.bump("disconnects_of_listed_peer");
                }
                // handles to the peer obtained before the disconnect must be dead as well
                let ida = h.nodes[a].idx;
                let stale: Vec<anemo::Peer> = handles.iter().filter(|(n, q, _)| *n == ida && *q == p).map(|(_, _, x)| x.clone()).collect();
                handles.retain(|(n, q, _)| !(*n == ida && *q == p));
                for mut ph in stale.into_iter().take(3) {
                    let req = world::build_request(w.next_id(), &RpcSpec::simple(8, 5));
                    let r = tokio::time::timeout(Duration::from_secs(5), ph.rpc(req)).await;
                    h.bump("stale_handle_rpcs");
                    if let Ok(Ok(_)) = r {
                        if !h.nodes[a].net.peers().contains(&p) {
                            h.c09.push(format!("node {a}: an rpc through a handle to {} obtained before disconnect() still succeeds although the peer is no longer connected", pid_hex(&p)));
                        }
                    }
                }
                label = format!("disconnect {a}-x->{b} listed={was_listed}");
                last_fault_or_action = w.now();
            } else if kind < 52 {
                // restart a node on the same key and address
                let old = h.nodes.remove(a);
                let cfg = {
                    let mut c = old.cfg.clone();
                    c.bind = Some(old.addr);
                    c
                };
                let idx_old = old.idx;
                handles.retain(|(n, _, _)| *n != idx_old);
                let r = tokio::time::timeout(Duration::from_secs(30), old.net.shutdown()).await;
                if r.is_err() {
                    h.inconclusive = Some("restart: shutdown did not return in 30 s (virtual)".into());
                    break;
                }
                drop(old);
                match w.start_node_as(idx_old, cfg) {
                    Ok(nn) => h.nodes.insert(a, nn),
                    Err(e) => {
                        h.inconclusive = Some(format!("restart: rebind failed: {e}"));
                        break;
                    }
                }
                h.bump("restarts");
                label = format!("restart {a}");
                last_fault_or_action = w.now();
            } else if kind < 60 {
                w.fabric.partition(h.nodes[a].addr, h.nodes[b].addr);
                faults_active = true;
                h.bump("partitions");
                label = format!("partition {a}|{b}");
                last_fault_or_action = w.now();
            } else if kind < 66 {
                w.fabric.heal_all();
                faults_active = false;
                label = "heal".into();
                last_fault_or_action = w.now();
            } else if kind < 72 {
                let d = Duration::from_millis(rng.gen_range(500..30_000));
                w.fabric.set_default_link(LinkParams { loss: 1.0, ..base_link });
                tokio::time::sleep(d).await;
                w.fabric.set_default_link(base_link);
                h.bump("loss_bursts");
                label = format!("blackout {}ms", d.as_millis());
                last_fault_or_action = w.now();
            } else if kind < 77 {
                // half-open: one direction cut
                w.fabric.cut(h.nodes[a].addr, h.nodes[b].addr);
                faults_active = true;
                h.bump("half_open_cuts");
                label = format!("cut {a}->{b}");
                last_fault_or_action = w.now();
            } else if kind < 84 {
                let d = Duration::from_millis(rng.gen_range(0..3_000));
                tokio::time::sleep(d).await;
                label = format!("idle {}ms", d.as_millis());
            } else if kind < 90 {
                // rpc a->b if listed (no verdict here except through the delivery oracle)
                let p = h.nodes[b].peer_id;
                let pa = h.nodes[a].peer_id;
                if h.nodes[a].net.peers().contains(&p) && h.nodes[b].net.peers().contains(&pa) && rng.gen_bool(0.35) {
                    // an application reacting to a failed call: a has an RPC in flight to b (handler
                    // never answers), b disconnects a, and the moment the call fails a disconnects b
                    // itself - possibly before its own connection handler has processed the close.
                    // Whoever removes the entry, the loss must be published exactly once.
                    h.check_c04("pre-racing-disconnect");
                    let spec = RpcSpec::simple(100, step as u64).with_script(world::Script { delay_us: world::NEVER, resp_len: 1, status: 200, nhdr: 0, seed: 1 });
                    let (log, net, ia) = (w.log.clone(), h.nodes[a].net.clone(), h.nodes[a].idx);
                    let mut call = Box::pin(async move { world::rpc(&log, &net, ia, p, &spec).await.1 });
                    let _ = futures::poll!(&mut call);
                    tokio::time::sleep(max_lat * 2 + Duration::from_millis(5)).await;
                    let _ = h.nodes[b].net.disconnect(pa);
                    let failed = tokio::time::timeout(Duration::from_secs(20), &mut call).await;
                    let was_listed = h.nodes[a].net.peers().contains(&p);
                    let _ = h.nodes[a].net.disconnect(p);
                    if h.nodes[a].net.peers().contains(&p) {
                        h.c09.push(format!("node {a} still lists {} right after disconnect()", pid_hex(&p)));
                    }
                    // let the handler's own exit path run as well, then read the events
                    tokio::time::sleep(Duration::from_millis(5)).await;
                    let (evs, _, errs) = h.nodes[a].drain();
                    for e in errs {
                        h.c04.push(format!("node {a} at a disconnect racing the remote close: {e}"));
                    }
                    // (a connection that replaced another in the meantime publishes its own LostPeer /
                    // NewPeer pair: what matters is that the LAST word about the peer is its loss)
                    let lost = evs.iter().filter(|e| matches!(e, PeerEvent::LostPeer(q, _) if *q == p)).count();
                    let last_is_loss = matches!(evs.iter().rev().find(|e| matches!(e, PeerEvent::NewPeer(q) | PeerEvent::LostPeer(q, _) if *q == p)), Some(PeerEvent::LostPeer(..)));
                    if was_listed && !last_is_loss {
                        h.c09.push(format!("node {a}: {} was listed, then removed by a disconnect() that raced the remote close, but the last event about it is not its loss ({lost} LostPeer events; rpc outcome {:?}; events {:?})", pid_hex(&p), failed.as_ref().map(|r| r.is_ok()), evs.iter().map(|e| match e { PeerEvent::NewPeer(q) => format!("N{}", &pid_hex(q)[..4]), PeerEvent::LostPeer(q, r) => format!("L{}:{r:?}", &pid_hex(q)[..4]) }).collect::<Vec<_>>()));
                    }
                    h.bump("disconnects_racing_a_remote_close");
                    label = format!("rpc {a}->{b} fails on remote disconnect, then {a} disconnects {b}");
                    last_fault_or_action = w.now();
                } else
                if h.nodes[a].net.peers().contains(&p) {
                    let spec = RpcSpec::simple(rng.gen_range(0..5000), step as u64);
                    let _ = tokio::time::timeout(
                        Duration::from_secs(20),
                        world::rpc(&w.log, &h.nodes[a].net, h.nodes[a].idx, p, &spec),
                    )
                    .await;
                    label = format!("rpc {a}->{b}");
                } else {
                    label = format!("rpc {a}->{b}");
                }
                last_fault_or_action = w.now();
            } else if kind < 95 && mode == Mode::C04 {
                // adversary: a second/third connection with the same identity
                let v = a;
                let r = adv.dial(h.nodes[v].addr, "verif", Some(ck_y.clone()), Duration::from_secs(3)).await;
                if let Ok(c) = r {
                    adv_conns.push((v, c));
                    h.bump("adversary_connections_admitted");
                }
                label = format!("adversary dials {v}");
                last_fault_or_action = w.now();
            } else if kind < 97 && mode == Mode::C04 && !adv_conns.is_empty() {
                let i = rng.gen_range(0..adv_conns.len());
                let (v, c) = adv_conns.remove(i);
                c.close(0u32.into(), b"bye");
                label = format!("adversary closes a connection to {v}");
                last_fault_or_action = w.now();
            } else {
                // quiescent point
                w.fabric.heal_all();
                faults_active = false;
                tokio::time::sleep(t_q).await;
                h.check_c04("quiescence");
                quiescent_points += 1;
                label = "quiescent-point".into();
                quiescent_check(&mut h, &w, y, &adv_conns, mode).await;
                last_fault_or_action = w.now();
            }
            h.trace.push(format!("t={}ms {}", w.now() / 1000, label));
            h.check_c04(&label);
            let _ = (faults_active, last_fault_or_action);
        }
        if h.inconclusive.is_none() && h.c04.is_empty() && h.c09.is_empty() {
            // final quiescent point
            w.fabric.heal_all();
            tokio::time::sleep(t_q).await;
            h.check_c04("final quiescence");
            quiescent_points += 1;
            quiescent_check(&mut h, &w, y, &adv_conns, mode).await;
        }
        // delivery oracle over whatever RPCs ran
        let mut events_dump = serde_json::Map::new();
        let (lost_events, new_events) = {
            let g = w.log.lock();
            for (k, v) in &g.events {
                events_dump.insert(
                    k.to_string(),
                    json!(v.iter().map(|e| format!("t={}us {:?}", e.t, e.ev).chars().take(60).collect::<String>()).collect::<Vec<_>>()),
                );
            }
            let mut st = world::DeliveryStats::default();
            let dv = world::check_delivery(&g, &mut st);
            if !dv.is_empty() {
                h.c09.push(format!("delivery: {}", dv[0]));
            }
            let mut l = 0u64;
            let mut nw = 0u64;
            for v in g.events.values() {
                for e in v {
                    match e.ev {
                        PeerEvent::NewPeer(_) => nw += 1,
                        PeerEvent::LostPeer(..) => l += 1,
                    }
                }
            }
            (l, nw)
        };
        if debug {
            for t in w.fabric.take_tap() {
                eprintln!("{:>9}us {} -> {} len={} long={:?} {:?}", t.t_us, t.src.port(), t.dst.port(), t.len, t.long_type, t.fate);
            }
            for x in &h.nodes { eprintln!("node {} port {}", x.idx, x.addr.port()); }
        }
        let fstats = w.fabric.stats();
        let problems = match mode {
            Mode::C04 => h.c04.clone(),
            Mode::C09 => h.c09.clone(),
        };
        let sample = json!({
            "scenario": idx, "seed": seed, "nodes": n, "idle_timeout_ms": it_ms, "idle_timeout_left_unspecified": idle_unspecified, "keep_alive_ms": ka_ms,
            "t_q_ms": t_q.as_millis() as u64, "limited_node": limited,
            "history": h.trace.iter().take(80).collect::<Vec<_>>(),
            "new_peer_events": new_events, "lost_peer_events": lost_events,
            "quiescent_points": quiescent_points,
        });
        let node_ids: Vec<String> = h.nodes.iter().map(|x| pid_hex(&x.peer_id)).collect();
        for n in h.nodes.drain(..) {
            drop(n);
        }
        adv.close();
        w.close();
        let mut res = if let Some(why) = h.inconclusive.clone() {
            ScenarioResult::inconclusive(why)
        } else if !problems.is_empty() {
            let mut wit = sample.clone();
            wit["problems"] = json!(problems);
            wit["events"] = serde_json::Value::Object(events_dump);
            wit["node_ids"] = json!(node_ids);
            let r = ScenarioResult::violated(problems[0].clone(), wit);
            match (&h.known, mode) {
                (Some(k), Mode::C09) => r.with_key(k.clone()),
                _ => r,
            }
        } else {
            let ka = match ka_ms {
                None => "off",
                Some(k) if k < it_ms => "short",
                _ => "long",
            };
            ScenarioResult::held(format!(
                "n={n} it={it_ms} ka={ka} lost={} restarts={} parts={} adv={}",
                lost_events.min(6),
                h.counters.get("restarts").copied().unwrap_or(0).min(2),
                h.counters.get("partitions").copied().unwrap_or(0).min(2),
                h.counters.get("adversary_connections_admitted").copied().unwrap_or(0).min(2),
            ))
            .with_sample(sample)
        };
        for (k, v) in &h.counters {
            res.add(k, *v);
        }
        res.add("new_peer_events", new_events);
        res.add("lost_peer_events", lost_events);
        res.add("quiescent_points", quiescent_points);
        res.add("datagrams_sent", fstats.sent);
        res.add("datagrams_partitioned", fstats.partitioned);
        res.add("history_steps", h.trace.len() as u64);
        res
    })
}

async fn quiescent_check(
    h: &mut Hist,
    w: &World,
    y: PeerId,
    adv_conns: &[(usize, quinn::Connection)],
    mode: Mode,
) {
    let n = h.nodes.len();
    let listings: Vec<BTreeSet<PeerId>> = h
        .nodes
        .iter()
        .map(|x| x.net.peers().into_iter().collect())
        .collect();
    let it = Duration::from_millis(
        h.nodes[0].cfg.config.quic.as_ref().and_then(|q| q.max_idle_timeout_ms).unwrap_or(30_000),
    );
    for a in 0..n {
        for b in 0..n {
            if a == b {
                continue;
            }
            let ab = listings[a].contains(&h.nodes[b].peer_id);
            let ba = listings[b].contains(&h.nodes[a].peer_id);
            let mut problem: Option<String> = None;
            if ab && !ba {
                problem = Some(format!(
                    "quiescent point: node {a} lists node {b} but node {b} does not list node {a}"
                ));
            }
            if ab && ba {
                *h.counters.entry("mutual_pairs_checked".into()).or_default() += 1;
                let spec = RpcSpec::simple(32, (a * 10 + b) as u64);
                let r = tokio::time::timeout(
                    Duration::from_secs(30),
                    world::rpc(&w.log, &h.nodes[a].net, h.nodes[a].idx, h.nodes[b].peer_id, &spec),
                )
                .await;
                match r {
                    Ok((_, Ok(_))) => {
                        *h.counters.entry("quiescent_rpcs_ok".into()).or_default() += 1;
                    }
                    Ok((_, Err(e))) => {
                        problem = Some(format!(
                            "quiescent point: node {a} lists node {b} but an rpc to it fails: {e:#}"
                        ))
                    }
                    Err(_) => {
                        problem = Some(format!(
                            "quiescent point: node {a} lists node {b} but an rpc to it hangs"
                        ))
                    }
                }
            }
            let Some(problem) = problem else { continue };
            // Classification.  QUIC's idle timers of the two ends are armed by each end's own last
            // receive; a late retransmission that reaches only one end makes that end expire up to
            // one idle timeout later than the other (silently).  That bounded window is a recorded
            // finding (key below); anything that does not resolve itself within the idle timeout
            // of the silent end's loss is a fresh violation.
            let (ida, idb) = (h.nodes[a].idx, h.nodes[b].idx);
            let (pa, pb) = (h.nodes[a].peer_id, h.nodes[b].peer_id);
            let last_lost_at_b = {
                let g = w.log.lock();
                g.events.get(&idb).and_then(|v| {
                    v.iter().rev().find_map(|e| match &e.ev {
                        PeerEvent::LostPeer(p, r) if *p == pa => Some((e.t, r.clone())),
                        _ => None,
                    })
                })
            };
            // The end that still lists the peer holds a connection whose other end is gone without
            // having been able to tell it (its close was lost in a fault, it expired silently, or
            // the node restarted).  QUIC keeps such a connection for max(idle timeout, 3 x PTO) after
            // the end's own last receive.  If the stale end drops the peer on its own - no API
            // activity - within 10 idle timeouts it is the recorded finding; otherwise a violation.
            let mut known = false;
            let _ = &last_lost_at_b;
            if !h.nodes[b].net.peers().contains(&pa) || true {
                let it_us = it.as_micros() as u64;
                let start = w.now();
                let deadline = start + 10 * it_us;
                while w.now() < deadline && h.nodes[a].net.peers().contains(&pb) {
                    tokio::time::sleep(Duration::from_millis(50)).await;
                }
                let a_lost = {
                    let g = w.log.lock();
                    g.events.get(&ida).and_then(|v| {
                        v.iter().rev().find_map(|e| match &e.ev {
                            PeerEvent::LostPeer(p, r) if *p == pb && e.t >= start.saturating_sub(1_000_000) => Some(r.clone()),
                            _ => None,
                        })
                    })
                };
                if !h.nodes[a].net.peers().contains(&pb) && !matches!(a_lost, None | Some(DisconnectReason::Requested)) {
                    known = true;
                }
            }
            if known {
                h.known = Some("C09:idle-expiry-asymmetry".into());
                h.c09.push(format!("{problem} [the two ends' idle timers expired at different times]"));
            } else {
                h.c09.push(problem);
            }
            return;
        }
    }
    if mode == Mode::C04 {
        // one live connection per identity: compare the adversary's open connections with listings
        for v in 0..n {
            let open: Vec<_> = adv_conns
                .iter()
                .filter(|(vv, c)| *vv == v && c.close_reason().is_none())
                .collect();
            let listed = listings[v].contains(&y);
            *h.counters.entry("adversary_liveness_checks".into()).or_default() += 1;
            if open.len() > 1 {
                h.c04.push(format!(
                    "node {v} holds {} live connections with the same remote identity (adversary)",
                    open.len()
                ));
            }
            if listed && open.is_empty() {
                // the node has not *seen* the connection closed if the adversary's end expired
                // silently; its own timers must remove the entry without outside help
                let deadline = w.now() + 10 * it.as_micros() as u64 + 6_000_000;
                while w.now() < deadline && h.nodes[v].net.peers().contains(&y) {
                    tokio::time::sleep(Duration::from_millis(100)).await;
                }
                if h.nodes[v].net.peers().contains(&y) {
                    h.c04.push(format!(
                        "node {v} keeps listing the adversary's identity although all its connections are closed"
                    ));
                }
            }
            if !listed && !open.is_empty() {
                // the adversary's end may outlive the node's by its own idle timer (max(idle,
                // 3 x PTO), re-armed once by its keep-alive); it must die on its own, though
                let deadline = w.now() + 10 * it.as_micros() as u64 + 6_000_000;
                while w.now() < deadline && adv_conns.iter().any(|(vv, c)| *vv == v && c.close_reason().is_none()) {
                    tokio::time::sleep(Duration::from_millis(100)).await;
                }
                if adv_conns.iter().any(|(vv, c)| *vv == v && c.close_reason().is_none()) {
                    h.c04.push(format!(
                        "node {v} does not list the adversary but a connection with it stays open"
                    ));
                }
            }
        }
    }
}
