//! C03 – dialing with an expected identity only ever reaches that identity.

use super::Ctx;
use crate::{
    adversary::{self, Adversary, CertKey},
    fabric::LinkParams,
    runner::{self, Report, RunCfg, ScenarioResult},
    world::{self, pid_hex, NodeCfg, World},
};
use anemo::{types::PeerEvent, PeerId};
use rand::{rngs::StdRng, Rng, SeedableRng};
use rustls::pki_types::CertificateDer;
use serde_json::json;
use std::{collections::BTreeSet, net::SocketAddr, sync::Arc, time::Duration};

#[derive(Debug, Clone, serde::Serialize)]
struct DialRec {
    caller: usize,
    addr: SocketAddr,
    owner: String,
    pin: Option<String>,
    pin_matches_owner: bool,
    impostor: bool,
    t_call: u64,
    t_ret: u64,
    result: Result<String, String>,
}

/// Was `p` in node `n`'s connected set at some instant in [t0, t1]?
fn present_in_window(
    g: &world::LogInner,
    n: usize,
    snapshot: &[PeerId],
    p: &PeerId,
    t0: u64,
    t1: u64,
) -> bool {
    let mut present = snapshot.contains(p);
    let mut seen = false;
    for e in g.events.get(&n).map(|v| v.as_slice()).unwrap_or(&[]) {
        if e.t > t1 {
            break;
        }
        if e.t >= t0 && present {
            seen = true;
        }
        match &e.ev {
            PeerEvent::NewPeer(q) if q == p => {
                present = true;
                if e.t >= t0 {
                    seen = true;
                }
            }
            PeerEvent::LostPeer(q, _) if q == p => present = false,
            _ => {}
        }
    }
    seen || present
}

pub fn scenario(idx: usize, seed: u64) -> ScenarioResult {
    runner::sim_block_on(|| async move {
        let mut w = World::new(seed);
        // adversary endpoints must stay alive until the scenario ends (and be dropped then)
        let mut keep_alive: Vec<Adversary> = Vec::new();
        let mut rng = StdRng::seed_from_u64(seed ^ 0xc03);
        let n = rng.gen_range(3..=5);
        let mut nodes = Vec::new();
        for _ in 0..n {
            let k = w.gen_key();
            let mut c = NodeCfg::new(k);
            c.config.connect_timeout_ms = Some(rng.gen_range(1_000..3_000));
            let mut q = anemo::QuicConfig::default();
            q.max_idle_timeout_ms = Some(10_000);
            q.keep_alive_interval_ms = Some(2_000);
            c.config.quic = Some(q);
            nodes.push(w.start_node(c).unwrap());
        }
        // node 0 is the designated caller that must never end up connected with node 1 ("forbidden
        // pair"): every dial 0 -> addr(1) carries a pin for somebody else.
        let with_impostor = rng.gen_bool(0.5);
        let imp_addr: SocketAddr = format!("10.68.{}.{}:4433", (idx / 250) % 250, 1 + idx % 250).parse().unwrap();
        let ky = w.gen_key();
        let y = world::peer_id_of_key(&ky);
        let target_e = nodes[2].peer_id; // identity the impostor pretends to be
        if with_impostor {
            w.registry.insert(imp_addr, world::Party { peer_id: y, key: ky, honest: false });
            // obtain E's certificate by connecting to E
            let ck_y = CertKey::honest(ky, "verif");
            let probe = Adversary::new(&w.fabric, format!("10.69.{}.{}:1", (idx / 250) % 250, 1 + idx % 250).parse().unwrap(), None);
            let cert_e = match probe.dial(nodes[2].addr, "verif", Some(ck_y.clone()), Duration::from_secs(5)).await {
                Ok(c) => {
                    let ce = adversary::peer_cert_of(&c);
                    c.close(0u32.into(), b"");
                    ce
                }
                Err(_) => None,
            };
            probe.close();
            tokio::time::sleep(Duration::from_millis(500)).await;
            let _ = nodes[2].net.disconnect(y);
            if let Some(cert_e) = cert_e {
                let ident = CertKey { chain: vec![CertificateDer::from(cert_e)], key: ck_y.key.clone() };
                let adv = Adversary::new(&w.fabric, imp_addr, Some(Arc::new(move |_| Some(ident.clone()))));
                let ep = adv.ep.clone();
                tokio::spawn(async move {
                    while let Some(inc) = ep.accept().await {
                        tokio::spawn(async move {
                            if let Ok(c) = inc.accept() {
                                if let Ok(conn) = c.await {
                                    if let Ok(mut s) = conn.open_uni().await {
                                        let _ = s.write_all(b"anemo\x00\x01\x00").await;
                                        let _ = s.finish();
                                        let _ = s.stopped().await;
                                    }
                                    conn.closed().await;
                                }
                            }
                        });
                    }
                });
                keep_alive.push(adv);
            }
        }
        // a party with an identity of its own that completes the handshake (sends its version frame)
        // and closes the connection right behind it - a listener that shuts down, crashes or
        // tie-breaks the connection away at that moment.  A dial to it may fail or succeed; if it
        // returns Ok, the party was in the caller's connected set at some instant before that.
        let flash_addr: SocketAddr = format!("10.69.{}.{}:7", (idx / 250) % 250, 1 + idx % 250).parse().unwrap();
        let kz = w.gen_key();
        let z = world::peer_id_of_key(&kz);
        let with_flash = rng.gen_bool(0.5);
        if with_flash {
            w.registry.insert(flash_addr, world::Party { peer_id: z, key: kz, honest: false });
            let ident = CertKey::honest(kz, "verif");
            let adv = Adversary::new(&w.fabric, flash_addr, Some(Arc::new(move |_| Some(ident.clone()))));
            let ep = adv.ep.clone();
            let linger_us = *[0u64, 0, 100, 1_000, 5_000].get(rng.gen_range(0..5)).unwrap();
            tokio::spawn(async move {
                while let Some(inc) = ep.accept().await {
                    tokio::spawn(async move {
                        if let Ok(c) = inc.accept() {
                            if let Ok(conn) = c.await {
                                if let Ok(mut s) = conn.open_uni().await {
                                    let _ = s.write_all(b"anemo\x00\x01\x00").await;
                                    let _ = s.finish();
                                }
                                if linger_us > 0 {
                                    tokio::time::sleep(Duration::from_micros(linger_us)).await;
                                }
                                conn.close(0u32.into(), b"gone");
                            }
                        }
                    });
                }
            });
            keep_alive.push(adv);
        }
        // fault pattern for the handshake window
        let fault = rng.gen_range(0..4);
        let fault_name = match fault {
            0 => "clean",
            1 => "handshake-loss",
            2 => "drop-some-1rtt",
            _ => "random-loss",
        };
        w.fabric.set_default_link(LinkParams {
            latency_min: Duration::from_millis(1),
            latency_max: Duration::from_millis(rng.gen_range(1..30)),
            loss: if fault == 3 { rng.gen_range(0.05..0.4) } else { 0.0 },
            dup: 0.0,
        });
        if fault == 1 {
            let p = rng.gen_range(0.1..0.5);
            let mut r2 = StdRng::seed_from_u64(seed ^ 77);
            w.fabric.add_drop_rule(usize::MAX, Box::new(move |t| t.long_type.is_some() && r2.gen_bool(p)));
        }
        if fault == 2 {
            // drop the k-th..(k+m)-th short-header datagram of every flow direction: hits the
            // listener's acknowledgement stream / its ack
            let k = rng.gen_range(0..4);
            let m = rng.gen_range(1..4);
            let mut seen: std::collections::HashMap<(SocketAddr, SocketAddr), usize> = Default::default();
            w.fabric.add_drop_rule(usize::MAX, Box::new(move |t| {
                if t.long_type.is_some() {
                    return false;
                }
                let c = seen.entry((t.src, t.dst)).or_default();
                *c += 1;
                *c > k && *c <= k + m
            }));
        }

        // dial programme
        let mut dials: Vec<(usize, SocketAddr, Option<PeerId>, Duration)> = Vec::new();
        let n_dials = rng.gen_range(3..10);
        for _ in 0..n_dials {
            let caller = rng.gen_range(0..n);
            let delay = Duration::from_micros(rng.gen_range(0..50_000));
            let kind = rng.gen_range(0..10);
            let (addr, pin) = if caller == 0 && kind < 4 {
                // forbidden pair: address of node 1, pin for somebody else
                let other = nodes[rng.gen_range(2..n)].peer_id;
                (nodes[1].addr, Some(other))
            } else if kind == 9 && rng.gen_bool(0.5) {
                // the party that answers at the dialed address is the caller itself
                let me = nodes[caller].peer_id;
                let other = nodes[(caller + 1) % n].peer_id;
                (nodes[caller].addr, match rng.gen_range(0..3) { 0 => None, 1 => Some(me), _ => Some(other) })
            } else if with_flash && kind == 8 {
                (flash_addr, match rng.gen_range(0..3) { 0 => None, 1 => Some(z), _ => Some(nodes[(caller + 1) % n].peer_id) })
            } else if with_impostor && kind < 6 {
                (imp_addr, if rng.gen_bool(0.7) { Some(target_e) } else { None })
            } else {
                let mut t = rng.gen_range(0..n);
                if t == caller {
                    t = (t + 1) % n;
                }
                if (caller == 0 && t == 1) || (caller == 1 && t == 0) {
                    t = 2;
                }
                if t == caller {
                    t = (t + 1) % n;
                    if (caller == 0 && t == 1) || (caller == 1 && t == 0) { t = 3 % n; }
                }
                let pin = match rng.gen_range(0..3) {
                    0 => None,
                    1 => Some(nodes[t].peer_id),
                    _ => Some(nodes[(t + 1) % n].peer_id), // likely wrong pin
                };
                (nodes[t].addr, pin)
            };
            // never create a legitimate 0<->1 connection
            if (caller == 0 && addr == nodes[1].addr && pin.map(|p| p == nodes[1].peer_id).unwrap_or(true))
                || (caller == 1 && addr == nodes[0].addr)
            {
                continue;
            }
            dials.push((caller, addr, pin, delay));
        }
        let log = w.log.clone();
        let mut futs = Vec::new();
        for (caller, addr, pin, delay) in dials.clone() {
            let net = nodes[caller].net.clone();
            let log = log.clone();
            futs.push(async move {
                tokio::time::sleep(delay).await;
                let t_call = log.now();
                let r = match pin {
                    Some(p) => net.connect_with_peer_id(addr, p).await,
                    None => net.connect(addr).await,
                };
                (caller, addr, pin, t_call, log.now(), r)
            });
        }
        let results = futures::future::join_all(futs).await;
        w.fabric.clear_drop_rules();
        w.fabric.set_default_link(LinkParams::fixed(Duration::from_millis(1)));
        tokio::time::sleep(Duration::from_secs(5)).await;

        let mut problems = Vec::new();
        let mut recs = Vec::new();
        let g = w.log.lock();
        let mut ok_pinned = 0u64;
        let mut ok_plain = 0u64;
        let mut refused_wrong = 0u64;
        let mut failed_right = 0u64;
        for (caller, addr, pin, t_call, t_ret, r) in &results {
            let owner = w.registry.get(addr).map(|p| p.peer_id);
            let impostor = *addr == imp_addr;
            let rec = DialRec {
                caller: *caller,
                addr: *addr,
                owner: owner.map(|p| pid_hex(&p)).unwrap_or_default(),
                pin: pin.map(|p| pid_hex(&p)),
                pin_matches_owner: pin.is_some() && *pin == owner,
                impostor,
                t_call: *t_call,
                t_ret: *t_ret,
                result: r.as_ref().map(pid_hex).map_err(|e| format!("{e:#}").chars().take(90).collect()),
            };
            match r {
                Ok(p) => {
                    if let Some(e) = pin {
                        if p != e {
                            problems.push(format!("pinned dial for {} returned {}", pid_hex(e), pid_hex(p)));
                        }
                        ok_pinned += 1;
                    } else {
                        ok_plain += 1;
                    }
                    if Some(*p) != owner {
                        problems.push(format!(
                            "dial to {addr} returned {} but the party at that address holds {:?}",
                            pid_hex(p), owner.map(|o| pid_hex(&o))
                        ));
                    }
                    if let (Some(e), Some(o)) = (pin, owner) {
                        if *e != o {
                            problems.push(format!(
                                "dial expecting {} succeeded although {} answers at {addr}",
                                pid_hex(e), pid_hex(&o)
                            ));
                        }
                    }
                    if !present_in_window(&g, nodes[*caller].idx, &nodes[*caller].snapshot, p, *t_call, *t_ret) {
                        problems.push(format!(
                            "dial by node {caller} returned {} at t={t_ret} but that peer was never in the caller's connected set during the call",
                            pid_hex(p)
                        ));
                    }
                }
                Err(_) => {
                    if pin.is_some() && *pin != owner {
                        refused_wrong += 1;
                    } else {
                        failed_right += 1;
                    }
                }
            }
            recs.push(rec);
        }
        // forbidden pair 0/1 and the impostor: nobody may list, announce or serve the other
        let mention = |node: usize, who: &PeerId| -> bool {
            g.events.get(&node).map(|v| v.iter().any(|e| matches!(&e.ev, PeerEvent::NewPeer(p) | PeerEvent::LostPeer(p, _) if p == who))).unwrap_or(false)
        };
        if mention(nodes[0].idx, &nodes[1].peer_id) || nodes[0].net.peers().contains(&nodes[1].peer_id) {
            problems.push("caller lists/announces the party that answered a dial meant for someone else".into());
        }
        if mention(nodes[1].idx, &nodes[0].peer_id) || nodes[1].net.peers().contains(&nodes[0].peer_id) {
            problems.push("the wrong party that answered lists/announces the caller".into());
        }
        for s in &g.starts {
            if (s.node == nodes[0].idx && s.from_full == Some(nodes[1].peer_id.0))
                || (s.node == nodes[1].idx && s.from_full == Some(nodes[0].peer_id.0))
            {
                problems.push("a request was served between the forbidden pair".into());
            }
        }
        // nobody may have an entry for the impostor's claimed identity because of the impostor:
        // E itself may be connected legitimately, so check by address instead: no handler start from imp_addr
        let imp_dials = recs.iter().filter(|r| r.impostor).count() as u64;
        for r in recs.iter().filter(|r| r.impostor) {
            if let Ok(p) = &r.result {
                if r.pin.is_some() {
                    problems.push(format!("pinned dial to the impostor's address succeeded with {p}"));
                }
            }
        }
        let all_peers: BTreeSet<usize> = nodes.iter().map(|n| n.net.peers().len()).collect();
        let stats = w.fabric.stats();
        let sample = json!({
            "scenario": idx, "seed": seed, "nodes": n, "fault": fault_name, "impostor": with_impostor,
            "dials": recs, "peer_counts": all_peers, "fabric": stats,
        });
        drop(g);
        w.close();
        let res = if !problems.is_empty() {
            let mut wit = sample;
            wit["problems"] = json!(problems);
            ScenarioResult::violated(problems[0].clone(), wit)
        } else {
            ScenarioResult::held(format!(
                "fault={fault_name} imp={with_impostor} okpin={} okplain={} refused={} failedright={}",
                ok_pinned.min(3), ok_plain.min(3), refused_wrong.min(3), failed_right.min(2)
            ))
            .with_sample(sample)
        };
        res.count("dials", results.len() as u64)
            .count("dials_ok_pinned", ok_pinned)
            .count("dials_ok_unpinned", ok_plain)
            .count("dials_refused_wrong_identity", refused_wrong)
            .count("dials_failed_other", failed_right)
            .count("dials_to_impostor", imp_dials)
            .count("datagrams_rule_dropped", stats.rule_dropped)
            .count("datagrams_lost", stats.lost)
    })
}

pub fn run(ctx: &Ctx) -> i32 {
    let tier = ctx.tier;
    let cfg = RunCfg {
        property: "C03",
        tier,
        seed: ctx.seed,
        scenarios: tier.pick(12_000, 300_000),
        threads: super::threads(),
        watchdog: Duration::from_secs(120),
        budget: Duration::from_secs(tier.pick(90, 900)),
        only: ctx.only,
    };
    let summary = runner::run_scenarios(&cfg, scenario);
    runner::finish(Report {
        property: "C03",
        tier,
        seed: ctx.seed,
        level: "exploration",
        rule: "scenario = 3-5 real Networks (+ optionally an impostor endpoint replaying the expected peer's certificate) on the fabric; 3-10 racing dials (pinned with right/wrong identity, unpinned, to the impostor, and a 'forbidden pair' that is only ever dialed with a wrong pin) under a seeded handshake-window fault pattern (drop rules on long-header packets, on the first 1-RTT datagrams, or random loss); oracle = ground-truth owner of the dialed fabric address vs. returned identity, membership of the returned peer in the caller's connected set during the call (snapshot+timestamped events), and absence of any listing/event/handler entry between parties that only met through a mismatching dial; distinct by (fault class, impostor, outcome mix) Dials include self-dials (the caller's own address; unpinned, pinned to itself, pinned to somebody else).".into(),
        assumptions: vec!["one-hop topologies; no address migration".into()],
        summary,
        extra: Default::default(),
        exhaustive: None,
        min_signatures: 8,
        required_counters: vec!["dials_ok_pinned", "dials_ok_unpinned", "dials_refused_wrong_identity", "dials_to_impostor"],
    })
}
