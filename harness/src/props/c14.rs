//! C14 – networks with different names never connect.

use super::Ctx;
use crate::{
    adversary::{self, Adversary, CertKey, CertVariant},
    runner::{self, Report, RunCfg, ScenarioResult},
    world::{peer_id_of_key, pid_hex, NodeCfg, World},
};
use anemo::types::PeerEvent;
use rand::{rngs::StdRng, seq::SliceRandom, Rng, SeedableRng};
use rustls::pki_types::{CertificateDer, ServerName};
use serde_json::json;
use std::{sync::Arc, time::Duration};

const POOL: [&str; 12] = [
    "alpha",
    "alphb",
    "alph",
    "alphaa",
    "alpha.net",
    "net.alpha",
    "beta.example.org",
    "b-1.example.org",
    "example.org",
    "sui",
    "sui-testnet",
    "xaaaaaaaaaaaaaaaaaaaaaaaaaaaaaaaaaaaaaaaaaaaaaaaaaaaaaaaaaaaaa",
];

fn accepted(primary: &str, alt: &Option<String>) -> Vec<String> {
    let mut v = vec![primary.to_owned()];
    if let Some(a) = alt {
        v.push(a.clone());
    }
    v
}

/// verifier level: (accepted names, certificate name[, offered server name]) -> accept/reject
pub fn component_scenario(idx: usize, seed: u64) -> ScenarioResult {
    let mut rng = StdRng::seed_from_u64(seed ^ 0xc14a);
    let mut key = [0u8; 32];
    rng.fill(&mut key);
    let now = adversary::now_unix();
    let mut problems = Vec::new();
    let mut checks = 0u64;
    let mut accepts = 0u64;
    for _ in 0..40 {
        let p = *POOL.choose(&mut rng).unwrap();
        let alt = if rng.gen_bool(0.5) { Some(POOL.choose(&mut rng).unwrap().to_string()) } else { None };
        let names = accepted(p, &alt);
        let cv = anemo::verif::crypto::client_cert_verifier(names.clone());
        let sv = anemo::verif::crypto::server_cert_verifier(names.clone());
        for c in POOL {
            let cert = CertificateDer::from(adversary::make_cert(&key, c, &CertVariant::Plain));
            let want = names.iter().any(|n| n == c);
            let got = cv.verify_client_cert(&cert, &[], now).is_ok();
            checks += 1;
            accepts += got as u64;
            if got != want {
                problems.push(format!(
                    "client-certificate verifier for names {names:?} {} a certificate issued for {c:?}",
                    if got { "accepts" } else { "rejects" }
                ));
            }
            for s in [p, c, alt.as_deref().unwrap_or("alph")] {
                let want = names.iter().any(|n| n == s) && c == s;
                let sn = ServerName::try_from(s.to_owned()).unwrap();
                let got = sv.verify_server_cert(&cert, &[], &sn, &[], now).is_ok();
                checks += 1;
                accepts += got as u64;
                if got != want {
                    problems.push(format!(
                        "server-certificate verifier for names {names:?}, dialed name {s:?} {} a certificate issued for {c:?}",
                        if got { "accepts" } else { "rejects" }
                    ));
                }
            }
        }
        // a certificate carrying several names
        let multi = CertificateDer::from(adversary::make_cert(&key, "x", &CertVariant::ManySans(vec!["zzz".into(), p.into()])));
        if cv.verify_client_cert(&multi, &[], now).is_err() {
            problems.push("certificate listing an accepted name among several is rejected".into());
        }
        checks += 1;
    }
    let r = if problems.is_empty() {
        ScenarioResult::held("verifier-level").with_sample(json!({"part": "verifier-level", "scenario": idx, "checks": checks, "accepted": accepts}))
    } else {
        ScenarioResult::violated(problems[0].clone(), json!({"problems": problems.iter().take(10).collect::<Vec<_>>()}))
    };
    r.count("verifier_name_checks", checks).count("verifier_name_accepts", accepts)
}

pub fn scenario(idx: usize, seed: u64) -> ScenarioResult {
    runner::sim_block_on(|| async move {
        let mut w = World::new(seed);
        let mut rng = StdRng::seed_from_u64(seed ^ 0xc14b);
        // a small family of names so that matches actually occur
        let fam: Vec<&str> = POOL.choose_multiple(&mut rng, 3).copied().collect();
        let n = rng.gen_range(3..=5usize);
        let shared_key = w.gen_key();
        let mut nodes = Vec::new();
        let mut cfgs: Vec<(String, Option<String>)> = Vec::new();
        for i in 0..n {
            let key = if i > 0 && rng.gen_bool(0.2) { shared_key } else if i == 0 { shared_key } else { w.gen_key() };
            let mut c = NodeCfg::new(key);
            c.name = fam.choose(&mut rng).unwrap().to_string();
            c.alt_name = if rng.gen_bool(0.5) { Some(fam.choose(&mut rng).unwrap().to_string()) } else { None };
            c.config.connect_timeout_ms = Some(1_500);
            cfgs.push((c.name.clone(), c.alt_name.clone()));
            nodes.push(w.start_node(c).unwrap());
        }
        let mut problems = Vec::new();
        let mut trace = Vec::new();
        let mut ok_dials = 0u64;
        let mut refused = 0u64;
        // every ordered pair with distinct identities
        let mut pairs: Vec<(usize, usize)> = (0..n).flat_map(|a| (0..n).map(move |b| (a, b))).filter(|(a, b)| a != b).collect();
        pairs.shuffle(&mut rng);
        for (d, l) in pairs {
            if nodes[d].peer_id == nodes[l].peer_id {
                continue;
            }
            let want = accepted(&cfgs[l].0, &cfgs[l].1).contains(&cfgs[d].0);
            let evd = w.log.lock().events.get(&nodes[d].idx).map(|v| v.len()).unwrap_or(0);
            let evl = w.log.lock().events.get(&nodes[l].idx).map(|v| v.len()).unwrap_or(0);
            let r = nodes[d].net.connect(nodes[l].addr).await;
            tokio::time::sleep(Duration::from_millis(100)).await;
            trace.push(format!("{:?} dials {:?}: ok={} (model {})", cfgs[d], cfgs[l], r.is_ok(), want));
            if r.is_ok() != want {
                problems.push(format!(
                    "dialer with names {:?} -> listener with names {:?}: connect ok={}, the model says {}",
                    cfgs[d], cfgs[l], r.is_ok(), want
                ));
            }
            if r.is_ok() {
                ok_dials += 1;
            } else {
                refused += 1;
                let g = w.log.lock();
                let seen = |node: usize, from: usize, who: &anemo::PeerId| {
                    g.events.get(&node).map(|v| v[from..].iter().any(|e| matches!(&e.ev, PeerEvent::NewPeer(p) if p == who))).unwrap_or(false)
                };
                if seen(nodes[d].idx, evd, &nodes[l].peer_id) || seen(nodes[l].idx, evl, &nodes[d].peer_id) {
                    problems.push("a refused cross-network dial still produced a NewPeer event".into());
                }
            }
            let _ = nodes[d].net.disconnect(nodes[l].peer_id);
            let _ = nodes[l].net.disconnect(nodes[d].peer_id);
            tokio::time::sleep(Duration::from_millis(100)).await;
        }
        // adversarial dialer: claimed name s in the TLS hello, certificate issued for c
        let ky = w.gen_key();
        let y = peer_id_of_key(&ky);
        let adv = Adversary::new(&w.fabric, format!("10.71.{}.{}:4433", (idx / 250) % 250, 1 + idx % 250).parse().unwrap(), None);
        let mut adv_admitted = 0u64;
        let mut adv_refused = 0u64;
        let mut names: Vec<&str> = fam.clone();
        names.push("other-net");
        // every listener of the scenario in turn, so that a certificate one listener has accepted is
        // then shown to listeners for other names (the certificate is the same bytes every time)
        let mut listeners: Vec<usize> = (0..n).collect();
        listeners.shuffle(&mut rng);
        for l in listeners.into_iter().take(3) {
        let acc = accepted(&cfgs[l].0, &cfgs[l].1);
        for s in &names {
            for c in &names {
                let ident = CertKey::honest(ky, c);
                let want = acc.iter().any(|a| a == s) && acc.iter().any(|a| a == c);
                let r = adv.dial(nodes[l].addr, s, Some(ident), Duration::from_secs(2)).await;
                tokio::time::sleep(Duration::from_millis(50)).await;
                let listed = nodes[l].net.peers().contains(&y);
                trace.push(format!("adversary hello={s:?} cert={c:?} -> listener {:?}: admitted={} listed={listed} (model {want})", cfgs[l], r.is_ok()));
                if r.is_ok() != want || listed != want {
                    problems.push(format!(
                        "adversarial dialer claiming {s:?} with a certificate for {c:?} at a listener accepting {acc:?}: admitted={}, listed={listed}, the model says {want}",
                        r.is_ok()
                    ));
                }
                if r.is_ok() { adv_admitted += 1 } else { adv_refused += 1 }
                if let Ok(conn) = r {
                    conn.close(0u32.into(), b"");
                }
                let _ = nodes[l].net.disconnect(y);
                tokio::time::sleep(Duration::from_millis(50)).await;
            }
        }
        }
        // reconfiguration: one private key serves first {p, q} and then only {p} (restart at the same
        // address, restart at another address, or a second live endpoint holding the same key).  An
        // adversary that the first configuration legitimately admitted with a certificate for q keeps
        // its TLS session store and comes back claiming p: the second configuration never verified
        // any certificate of this party, and q is not a name it accepts.
        let mut reconf = [0u64; 5]; // phases, tickets stored, tickets offered back, skipped, legit re-admitted
        {
            let mode = rng.gen_range(0..3u8);
            let mut pq: Vec<&str> = fam.clone();
            pq.shuffle(&mut rng);
            let (p, q, r3) = (pq[0], pq[1], pq[2]);
            let kk = w.gen_key();
            let kz = w.gen_key();
            let z = peer_id_of_key(&kz);
            let mut ca = NodeCfg::new(kk);
            ca.name = p.to_string();
            ca.alt_name = Some(q.to_string());
            ca.config.shutdown_idle_timeout_ms = Some(200);
            let store = adversary::CountingSessionStore::new();
            let cfg_q = adversary::client_config_with_store(Some(CertKey::honest(kz, q)), Some(store.clone()));
            match w.start_node(ca) {
                Err(_) => reconf[3] += 1,
                Ok(la) => {
                    let la_addr = la.addr;
                    let r1 = adv.dial_with_config(la_addr, p, cfg_q.clone(), Duration::from_secs(2)).await;
                    tokio::time::sleep(Duration::from_millis(100)).await;
                    let first_ok = r1.is_ok();
                    trace.push(format!("reconfiguration(mode {mode}): adversary hello={p:?} cert={q:?} -> first configuration [{p:?},{q:?}]: admitted={first_ok}"));
                    if !first_ok {
                        problems.push(format!("adversarial dialer claiming {p:?} with a certificate for {q:?} at a listener accepting [{p:?}, {q:?}]: refused, the model says admitted"));
                    }
                    if let Ok(c) = r1 {
                        c.close(0u32.into(), b"");
                    }
                    let _ = la.net.disconnect(z);
                    tokio::time::sleep(Duration::from_millis(50)).await;
                    let la_keep = if mode < 2 {
                        let _ = tokio::time::timeout(Duration::from_secs(5), la.net.shutdown()).await;
                        drop(la);
                        tokio::time::sleep(Duration::from_millis(300)).await;
                        None
                    } else {
                        Some(la)
                    };
                    let mut cb = NodeCfg::new(kk);
                    cb.name = p.to_string();
                    cb.alt_name = if rng.gen_bool(0.5) { Some(r3.to_string()) } else { None };
                    if mode == 0 {
                        cb.bind = Some(la_addr);
                    }
                    let accb = accepted(&cb.name, &cb.alt_name);
                    match (first_ok, w.start_node(cb)) {
                        (true, Ok(lb)) => {
                            reconf[0] += 1;
                            reconf[1] += store.stored();
                            let evb = w.log.lock().events.get(&lb.idx).map(|v| v.len()).unwrap_or(0);
                            let off0 = store.offered();
                            let r2 = adv.dial_with_config(lb.addr, p, cfg_q.clone(), Duration::from_secs(2)).await;
                            tokio::time::sleep(Duration::from_millis(50)).await;
                            reconf[2] += store.offered() - off0;
                            let listed = lb.net.peers().contains(&z);
                            let announced = w.log.lock().events.get(&lb.idx).map(|v| v[evb.min(v.len())..].iter().any(|e| matches!(&e.ev, PeerEvent::NewPeer(x) if *x == z))).unwrap_or(false);
                            trace.push(format!("reconfiguration(mode {mode}): same adversary + kept TLS session store ({} tickets stored, {} offered back) hello={p:?} cert={q:?} -> second configuration {accb:?}: admitted={} listed={listed} announced={announced} (model false){}", store.stored(), store.offered(), r2.is_ok(), r2.as_ref().err().map(|e| format!(" [{e}]")).unwrap_or_default()));
                            if std::env::var("VERIF_DEBUG").is_ok() {
                                eprintln!("{}", trace.last().unwrap());
                            }
                            if r2.is_ok() || listed || announced {
                                problems.push(format!(
                                    "a dialer whose certificate is valid only for {q:?} (claiming {p:?}) was admitted by a listener accepting {accb:?} after the same private key had served [{p:?}, {q:?}] (mode {mode}: 0 restart same address, 1 restart elsewhere, 2 second live endpoint; TLS session store kept: {} tickets stored, {} offered back): admitted={}, listed={listed}, announced={announced}",
                                    store.stored(), store.offered(), r2.is_ok()
                                ));
                            }
                            if let Ok(c) = r2 {
                                c.close(0u32.into(), b"");
                            }
                            let _ = lb.net.disconnect(z);
                            // the same party with a certificate the second configuration accepts, stale
                            // tickets still in its store: admitted (a stale ticket costs nothing)
                            let r3 = adv.dial_with_config(lb.addr, p, adversary::client_config_with_store(Some(CertKey::honest(kz, p)), Some(store.clone())), Duration::from_secs(2)).await;
                            tokio::time::sleep(Duration::from_millis(50)).await;
                            trace.push(format!("reconfiguration: same adversary hello={p:?} cert={p:?} -> second configuration: admitted={} (model true)", r3.is_ok()));
                            match r3 {
                                Ok(c) => {
                                    reconf[4] += 1;
                                    c.close(0u32.into(), b"");
                                }
                                Err(e) => problems.push(format!("dialer claiming {p:?} with a certificate for {p:?} refused by a listener accepting {accb:?} ({e}); its session store held stale tickets")),
                            }
                            let _ = lb.net.disconnect(z);
                            tokio::time::sleep(Duration::from_millis(50)).await;
                        }
                        _ => reconf[3] += 1,
                    }
                    drop(la_keep);
                }
            }
        }
        // adversarial listener presenting a certificate for another name
        let d = rng.gen_range(0..n);
        for c in &names {
            let ident = CertKey::honest(ky, c);
            let la: std::net::SocketAddr = format!("10.72.{}.{}:{}", (idx / 250) % 250, 1 + idx % 250, 4000 + names.iter().position(|x| x == c).unwrap()).parse().unwrap();
            let id2 = ident.clone();
            let lst = Adversary::new(&w.fabric, la, Some(Arc::new(move |_| Some(id2.clone()))));
            let ep = lst.ep.clone();
            let t = tokio::spawn(async move {
                while let Some(inc) = ep.accept().await {
                    if let Ok(c) = inc.accept() {
                        if let Ok(conn) = c.await {
                            if let Ok(mut s) = conn.open_uni().await {
                                let _ = s.write_all(b"anemo\x00\x01\x00").await;
                                let _ = s.finish();
                                let _ = s.stopped().await;
                            }
                            conn.closed().await;
                        }
                    }
                }
            });
            let want = *c == cfgs[d].0;
            // both dial paths: plain, and naming the identity the listener really holds (a correct
            // key does not make a certificate for another network acceptable)
            let pinned = rng.gen_bool(0.5);
            let r = if pinned { nodes[d].net.connect_with_peer_id(la, y).await } else { nodes[d].net.connect(la).await };
            trace.push(format!("{:?} dials ({}) an adversarial listener with a certificate for {c:?}: ok={} (model {want})", cfgs[d], if pinned { "expecting its identity" } else { "plain" }, r.is_ok()));
            if r.is_ok() != want {
                problems.push(format!(
                    "dialer {:?} -> listener presenting a certificate for {c:?}: connect ok={}, the model says {want}",
                    cfgs[d], r.is_ok()
                ));
            }
            let _ = nodes[d].net.disconnect(y);
            lst.close();
            t.abort();
            tokio::time::sleep(Duration::from_millis(50)).await;
        }
        let _ = pid_hex(&y);
        let sample = json!({"part": "end-to-end", "scenario": idx, "seed": seed, "configs(primary,alternate)": cfgs, "history": trace.iter().take(60).collect::<Vec<_>>()});
        adv.close();
        w.close();
        let res = if !problems.is_empty() {
            let mut wit = sample;
            wit["problems"] = json!(problems);
            ScenarioResult::violated(problems[0].clone(), wit)
        } else {
            ScenarioResult::held(format!(
                "n={n} alts={} ok={} refused={} advok={}",
                cfgs.iter().filter(|c| c.1.is_some()).count(), ok_dials.min(3), refused.min(3), adv_admitted.min(2)
            ))
            .with_sample(sample)
        };
        res.count("honest_dials_ok", ok_dials)
            .count("honest_dials_refused", refused)
            .count("adversary_admitted_with_matching_names", adv_admitted)
            .count("adversary_refused", adv_refused)
            .count("reconfiguration_phases", reconf[0])
            .count("reconfiguration_tickets_stored", reconf[1])
            .count("reconfiguration_tickets_offered_back", reconf[2])
            .count("reconfiguration_phases_skipped", reconf[3])
            .count("reconfiguration_legitimate_readmitted", reconf[4])
    })
}

pub fn run(ctx: &Ctx) -> i32 {
    let tier = ctx.tier;
    let n_comp = tier.pick(8, 64);
    let cfg = RunCfg {
        property: "C14",
        tier,
        seed: ctx.seed,
        scenarios: n_comp + tier.pick(4_000, 100_000),
        threads: super::threads(),
        watchdog: Duration::from_secs(120),
        budget: Duration::from_secs(tier.pick(90, 900)),
        only: ctx.only,
    };
    let summary = runner::run_scenarios(&cfg, move |i, s| {
        if i < n_comp { component_scenario(i, s) } else { scenario(i - n_comp, s) }
    });
    runner::finish(Report {
        property: "C14",
        tier,
        seed: ctx.seed,
        level: "exploration",
        rule: "verifier level: (accepted names, certificate name, dialed name) triples from a pool of 12 DNS-shaped names (prefixes/suffixes of one another, one character apart, dotted, long) against the model accept iff name in accepted (and cert name = dialed name for the server check). end to end: 3-5 real Networks with (primary, optional alternate) from a 3-name family, equal or different keys; every ordered pair dials (model: success iff dialer.primary in accepted(listener)); an adversarial dialer with every (hello name, certificate name) combination (model: admitted iff both accepted); an adversarial listener presenting every certificate name (model: success iff = dialer.primary). distinct by (n, alternates, outcome mix) The adversarial listener is dialed plainly and naming its real identity. reconfiguration phase (every scenario): one private key serves [p,q] and then only [p(,r)] - restarted at the same address, restarted elsewhere, or as a second live endpoint; an adversary admitted by the first configuration with a certificate for q keeps its TLS session store (tickets stored / offered back are counted) and returns claiming p (model: refused, not listed, not announced), then with a certificate for p (model: admitted).".into(),
        assumptions: vec!["upper/lower-case variants and wildcard certificates are not judged (the property does not say which comparison is intended)".into()],
        summary,
        extra: Default::default(),
        exhaustive: None,
        min_signatures: 8,
        required_counters: vec!["verifier_name_checks", "verifier_name_accepts", "honest_dials_ok", "honest_dials_refused", "adversary_admitted_with_matching_names", "adversary_refused", "reconfiguration_phases", "reconfiguration_tickets_stored", "reconfiguration_tickets_offered_back", "reconfiguration_legitimate_readmitted"],
    })
}
