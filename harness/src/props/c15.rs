//! C15 – message size limits are exact, symmetric and confined to the RPC.

use super::Ctx;
use crate::{
    fabric::LinkParams,
    refmodel::wire as refwire,
    runner::{self, Report, RunCfg, ScenarioResult},
    world::{self, HandlerEnd, NodeCfg, RpcSpec, Script, World, H_ID, H_RESP_PAD, H_SCRIPT},
};
use anemo::types::PeerEvent;
use bytes::{Bytes, BytesMut};
use rand::{rngs::StdRng, seq::SliceRandom, Rng, SeedableRng};
use serde_json::json;
use std::{sync::atomic::Ordering, time::Duration};
use tokio_util::codec::{Decoder, Encoder};

const L_US: u64 = 20_000;
const EIGHT_MIB: usize = 8 * 1024 * 1024;
const LIMITS: [Option<usize>; 7] = [None, Some(0), Some(1), Some(100), Some(1_000), Some(65_536), Some(1 << 20)];

#[derive(Debug, Clone, Copy, PartialEq, Eq)]
enum Expect {
    Success,
    CallerRefusesRequest,
    CalleeRefusesRequest,
    CalleeCannotSendResponse,
    CallerRefusesResponse,
}

fn over(n: usize, lim: Option<usize>) -> bool {
    lim.map(|l| n > l).unwrap_or(false)
}

fn classify(hq: usize, bq: usize, hr: usize, br: usize, mc: Option<usize>, ms: Option<usize>) -> Expect {
    if over(hq, mc) || over(bq, mc) {
        Expect::CallerRefusesRequest
    } else if over(hq, ms) || over(bq, ms) {
        Expect::CalleeRefusesRequest
    } else if over(hr, ms) || over(br, ms) {
        Expect::CalleeCannotSendResponse
    } else if over(hr, mc) || over(br, mc) {
        Expect::CallerRefusesResponse
    } else {
        Expect::Success
    }
}

fn hdr_size(route: &str, headers: &world::Headers) -> usize {
    let v: Vec<(String, String)> = headers.iter().map(|(k, v)| (k.clone(), v.clone())).collect();
    refwire::request_header(route, &v).len()
}

/// codec-level boundary sweep (component)
pub fn codec_scenario(idx: usize, _seed: u64, big: bool) -> ScenarioResult {
    let mut problems = Vec::new();
    let mut checks = 0u64;
    for lim in LIMITS {
        let mut cfg = anemo::Config::default();
        cfg.max_frame_size = lim;
        let sizes: Vec<usize> = match lim {
            Some(l) => (l.saturating_sub(2)..=l + 2).collect(),
            None => {
                if big {
                    vec![0, 1, 70_000, EIGHT_MIB - 1, EIGHT_MIB, EIGHT_MIB + 1, 12 << 20]
                } else {
                    vec![0, 1, 70_000, 3 << 20]
                }
            }
        };
        for n in sizes {
            let want_ok = !over(n, lim);
            let mut enc = anemo::verif::wire::network_message_frame_codec(&cfg);
            let mut out = BytesMut::new();
            let r = enc.encode(Bytes::from(vec![0xabu8; n]), &mut out);
            checks += 1;
            let key_known = lim.is_none() && n > EIGHT_MIB;
            if r.is_ok() != want_ok && !key_known {
                problems.push(format!("encoder with max_frame_size={lim:?}: frame of {n} bytes -> {:?}, expected ok={want_ok}", r.is_ok()));
            }
            if key_known && r.is_err() {
                problems.push(format!("KNOWN8M encoder with no limit configured refuses a frame of {n} bytes"));
            }
            if let Ok(()) = r {
                if out.len() != n + 4 || out[..4] != (n as u32).to_be_bytes() {
                    problems.push(format!("encoder output for {n} bytes is not a 4-byte big-endian length prefix + payload"));
                }
            }
            // decoder on a hand-built frame
            let mut dec = anemo::verif::wire::network_message_frame_codec(&cfg);
            let mut input = BytesMut::with_capacity(n + 4);
            input.extend_from_slice(&(n as u32).to_be_bytes());
            input.resize(n + 4, 0xcd);
            let d = dec.decode(&mut input);
            checks += 1;
            let got_ok = matches!(d, Ok(Some(ref f)) if f.len() == n);
            if got_ok != want_ok && !key_known {
                problems.push(format!("decoder with max_frame_size={lim:?}: frame of {n} bytes -> ok={got_ok}, expected ok={want_ok}"));
            }
            if key_known && !got_ok {
                problems.push(format!("KNOWN8M decoder with no limit configured refuses a frame of {n} bytes"));
            }
        }
    }
    let known_only = !problems.is_empty() && problems.iter().all(|p| p.starts_with("KNOWN8M"));
    let r = if problems.is_empty() {
        ScenarioResult::held(format!("codec sweep big={big}")).with_sample(json!({"part": "codec", "scenario": idx, "boundary_checks": checks}))
    } else if known_only {
        ScenarioResult::violated(
            problems[0].replace("KNOWN8M ", ""),
            json!({"part": "codec", "problems": problems}),
        )
        .with_key("C15:no-limit-8MiB-cap")
    } else {
        let p: Vec<_> = problems.iter().filter(|p| !p.starts_with("KNOWN8M")).cloned().collect();
        ScenarioResult::violated(p[0].clone(), json!({"part": "codec", "problems": p}))
    };
    r.count("codec_boundary_checks", checks)
}

pub fn scenario(idx: usize, seed: u64, huge: bool) -> ScenarioResult {
    runner::sim_block_on(|| async move {
        let mut w = World::new(seed);
        let mut rng = StdRng::seed_from_u64(seed ^ 0xc15);
        w.fabric.set_default_link(LinkParams::fixed(Duration::from_micros(L_US)));
        // placement: caller only / callee only / both / neither
        let placement = idx % 4;
        let (mc, ms): (Option<usize>, Option<usize>) = if huge {
            (None, None)
        } else {
            // one pick in ten is a limit at or beyond what a 4-byte length prefix can express (a
            // perfectly legal configuration value): nothing the scenario sends comes near it
            const GIANT: [usize; 4] = [1 << 32, (1 << 32) + 64, (1 << 33) + 1_000, usize::MAX];
            let pick = |rng: &mut StdRng| if rng.gen_range(0..10) == 0 { Some(*GIANT.choose(rng).unwrap()) } else { *LIMITS[1..].choose(rng).unwrap() };
            match placement {
                0 => (pick(&mut rng), None),
                1 => (None, pick(&mut rng)),
                2 => (pick(&mut rng), pick(&mut rng)),
                _ => (None, None),
            }
        };
        let mk = |w: &mut World, lim: Option<usize>| {
            let mut c = NodeCfg::new(w.gen_key());
            c.config.max_frame_size = lim;
            let mut q = anemo::QuicConfig::default();
            q.max_idle_timeout_ms = Some(600_000);
            q.keep_alive_interval_ms = Some(5_000);
            c.config.quic = Some(q);
            c
        };
        let ca = mk(&mut w, mc);
        let a = w.start_node(ca).unwrap();
        let cb = mk(&mut w, ms);
        let b = w.start_node(cb).unwrap();
        if a.net.connect(b.addr).await.is_err() {
            w.close();
            return ScenarioResult::inconclusive("setup dial failed");
        }
        tokio::time::sleep(Duration::from_millis(300)).await;
        let mut problems: Vec<String> = Vec::new();
        let mut known_hit = false;
        let mut cases = Vec::new();
        let mut counts: std::collections::BTreeMap<String, u64> = Default::default();
        let lims: Vec<usize> = [mc, ms].iter().flatten().copied().collect();
        let n_rpcs = if huge { 4 } else { 14 };
        for k in 0..n_rpcs {
            if !problems.is_empty() {
                break;
            }
            // choose a target frame and a size near an applicable limit
            let which = rng.gen_range(0..4); // 0 hq 1 bq 2 hr 3 br
            let near: usize = if huge {
                *[EIGHT_MIB - 1, EIGHT_MIB, EIGHT_MIB + 1, 12 << 20, 32 << 20].get(k % 5).unwrap_or(&EIGHT_MIB)
            } else if let Some(l) = lims.choose(&mut rng).filter(|l| **l < (1 << 31)) {
                (*l as i64 + rng.gen_range(-2..=2)).max(0) as usize
            } else {
                *[0usize, 1, 1_000, 70_000, 1 << 20].choose(&mut rng).unwrap()
            };
            let id = w.next_id();
            let seq = w.log.next_seq.load(Ordering::SeqCst);
            let small = rng.gen_range(0..40usize);
            let mut spec = RpcSpec { route: "/c15".into(), headers: Default::default(), body: Bytes::new(), script: None };
            let mut script = Script { delay_us: 0, resp_len: small as u32, status: 200, nhdr: 0, seed: 5 + k as u64 };
            let mut resp_pad: Option<usize> = None;
            let which = if huge { [1, 3][k % 2] } else { which };
            match which {
                1 => spec.body = world::gen_bytes(k as u64, near),
                3 => script.resp_len = near as u32,
                2 => resp_pad = Some(0), // adjusted below
                _ => {}
            }
            if script.resp_len == 0 {
                script.seed |= 1; // force generated (empty) body rather than echo
            }
            spec.script = Some(script.clone());
            // response header size: status(2) + count(8) + vid + vseq (+ p)
            let hr_base = 2 + 8 + (8 + H_ID.len() + 8 + id.to_string().len()) + (8 + 4 + 8 + seq.to_string().len());
            if which == 2 {
                let with_p = hr_base + 8 + 1 + 8;
                let pad = near.saturating_sub(with_p);
                resp_pad = Some(pad);
                spec.headers.insert(H_RESP_PAD.into(), pad.to_string());
            }
            // request header size, steered through the `pad` header when it is the target
            let mut hdrs_full = spec.headers.clone();
            hdrs_full.insert(H_ID.into(), id.to_string());
            hdrs_full.insert(H_SCRIPT.into(), script.encode());
            let base_hq = hdr_size(&spec.route, &hdrs_full);
            if which == 0 {
                let with_pad = base_hq + 8 + 3 + 8;
                let pad = near.saturating_sub(with_pad);
                spec.headers.insert("pad".into(), "y".repeat(pad));
                hdrs_full.insert("pad".into(), "y".repeat(pad));
            }
            let hq = hdr_size(&spec.route, &hdrs_full);
            let bq = spec.body.len();
            let hr = hr_base + resp_pad.map(|p| 8 + 1 + 8 + p).unwrap_or(0);
            let br = script.resp_len as usize;
            let expect = classify(hq, bq, hr, br, mc, ms);
            let no_limit_big = mc.is_none() && ms.is_none() && [hq, bq, hr, br].iter().any(|x| *x > EIGHT_MIB);
            let bytes_before = w.fabric.stats().bytes;
            let peers_before = (world::sorted(a.net.peers()), world::sorted(b.net.peers()));
            let t0 = w.now();
            let res = tokio::time::timeout(Duration::from_secs(120), world::rpc_with_id(&w.log, &a.net, a.idx, b.peer_id, id, &spec)).await;
            let dt = w.now() - t0;
            let wire_bytes = w.fabric.stats().bytes - bytes_before;
            tokio::time::sleep(Duration::from_micros(3 * L_US)).await;
            let (started, finished, hr_actual) = {
                let g = w.log.lock();
                match g.starts.iter().find(|s| s.id == Some(id)) {
                    Some(s) => {
                        let fin = match &s.end {
                            Some(HandlerEnd::Finish(m)) => {
                                let v: Vec<(String, String)> = m.headers.iter().map(|(k, v)| (k.clone(), v.clone())).collect();
                                Some(refwire::response_header(m.status, &v).len())
                            }
                            _ => None,
                        };
                        (true, fin.is_some(), fin)
                    }
                    None => (false, false, None),
                }
            };
            if let Some(h) = hr_actual {
                if h != hr {
                    w.close();
                    return ScenarioResult::inconclusive(format!("harness mispredicted the response header size ({h} vs {hr})"));
                }
            }
            let case = json!({"caller_max": mc, "callee_max": ms, "request_header": hq, "request_body": bq,
                "response_header": hr, "response_body": br, "expect": format!("{expect:?}"),
                "result": match &res { Ok(Ok(r)) => format!("Ok({}, {} B)", r.status().to_u16(), r.body().len()), Ok(Err(e)) => format!("Err({})", format!("{e:#}").chars().take(70).collect::<String>()), Err(_) => "HANG".into() },
                "latency_us": dt, "handler_started": started, "wire_bytes_during_call": wire_bytes});
            *counts.entry(format!("expect:{expect:?}")).or_default() += 1;
            let mut bad = |m: String| problems.push(format!("{m}; case {case}"));
            let res = match res {
                Ok(r) => r,
                Err(_) => {
                    bad("rpc hangs (no result within 120 s of virtual time)".into());
                    break;
                }
            };
            match expect {
                Expect::Success => match &res {
                    Ok(r) if r.status().to_u16() == 200 && r.body().len() == br => {}
                    Ok(r) => bad(format!("sizes are within both limits but the response is status {} with {} bytes", r.status().to_u16(), r.body().len())),
                    Err(e) => {
                        if no_limit_big {
                            known_hit = true;
                            bad(format!("no maximum frame size is configured on either end, yet a message with a frame > 8 MiB is refused: {e:#}"));
                        } else {
                            bad(format!("sizes are within both limits but the rpc failed: {e:#}"));
                        }
                    }
                },
                _ => {
                    if res.is_ok() {
                        bad("a frame exceeds a configured maximum but the rpc returned Ok".into());
                    }
                    match expect {
                        Expect::CallerRefusesRequest => {
                            if started {
                                bad("the caller's own maximum is exceeded by the request, yet it reached the handler".into());
                            }
                            if dt >= L_US {
                                bad(format!("request over the caller's maximum was not refused before transmission (took {dt} us, one-way latency {L_US})"));
                            }
                            let oversize = if over(hq, mc) { hq } else { bq };
                            if over(hq, mc) && wire_bytes > 1_000 {
                                bad(format!("{wire_bytes} bytes went on the wire for a request whose header frame ({oversize} B) the sender must refuse"));
                            }
                        }
                        Expect::CalleeRefusesRequest => {
                            if started {
                                bad("request exceeds the callee's maximum, yet it reached the handler".into());
                            }
                        }
                        Expect::CalleeCannotSendResponse | Expect::CallerRefusesResponse => {
                            if !finished {
                                bad("request was within limits but the handler did not run".into());
                            }
                        }
                        Expect::Success => {}
                    }
                }
            }
            // confined to the rpc: connection stays, follow-up works (with a request that fits, if any fits)
            let peers_after = (world::sorted(a.net.peers()), world::sorted(b.net.peers()));
            if peers_after != peers_before {
                bad("the connected-peer listing changed because of a size-limit error".into());
            }
            let fits = classify(90, 0, 60, 0, mc, ms) == Expect::Success;
            let follow = tokio::time::timeout(Duration::from_secs(30), world::rpc(&w.log, &a.net, a.idx, b.peer_id, &RpcSpec::simple(0, 3))).await;
            match follow {
                Ok((_, Ok(_))) if fits => {}
                Ok((_, Err(e))) if fits => bad(format!("follow-up rpc on the same connection failed: {e:#}")),
                Err(_) => bad("follow-up rpc hangs".into()),
                _ => {}
            }
            if cases.len() < 8 {
                cases.push(case);
            }
        }
        let lost = {
            let g = w.log.lock();
            g.events.values().flatten().filter(|e| matches!(e.ev, PeerEvent::LostPeer(..))).count()
        };
        if lost > 0 && problems.is_empty() {
            problems.push("a connection was torn down during the size-limit history".into());
        }
        {
            let g = w.log.lock();
            let mut st = world::DeliveryStats::default();
            let dv = world::check_delivery(&g, &mut st);
            if !dv.is_empty() && problems.is_empty() {
                problems.push(format!("delivery: {}", dv[0]));
            }
        }
        let sample = json!({"part": "end-to-end", "scenario": idx, "seed": seed, "caller_max_frame": mc, "callee_max_frame": ms, "cases": cases});
        w.close();
        let res = if !problems.is_empty() {
            let mut wit = sample;
            wit["problems"] = json!(problems);
            let r = ScenarioResult::violated(problems[0].chars().take(400).collect::<String>(), wit);
            if known_hit && problems.len() == 1 { r.with_key("C15:no-limit-8MiB-cap") } else { r }
        } else {
            ScenarioResult::held(format!("mc={mc:?} ms={ms:?} kinds={:?}", counts.keys().map(|k| &k[7..12]).collect::<Vec<_>>())).with_sample(sample)
        };
        let mut res = res.count("e2e_rpcs_judged", counts.values().sum());
        for (k, v) in counts {
            res.add(&k, v);
        }
        res
    })
}

pub fn run(ctx: &Ctx) -> i32 {
    let tier = ctx.tier;
    let n_codec = 2;
    let n_huge = tier.pick(6, 40);
    let n = tier.pick(8_000, 200_000);
    let cfg = RunCfg {
        property: "C15",
        tier,
        seed: ctx.seed,
        scenarios: n_codec + n_huge + n,
        threads: super::threads(),
        watchdog: Duration::from_secs(300),
        budget: Duration::from_secs(tier.pick(120, 1000)),
        only: ctx.only,
    };
    let summary = runner::run_scenarios(&cfg, move |i, s| {
        if i < n_codec {
            codec_scenario(i, s, i == 0)
        } else if i < n_codec + n_huge {
            scenario(i, s, true)
        } else {
            scenario(i, s, false)
        }
    });
    runner::finish(Report {
        property: "C15",
        tier,
        seed: ctx.seed,
        level: "exploration",
        rule: "codec level: for every limit in {None,0,1,100,1000,65536,1MiB} frames of limit-2..limit+2 bytes (and 8 MiB-1/8 MiB/8 MiB+1/12 MiB with no limit) through the real frame codec, encode and decode, vs. the reference 'accepted iff size <= limit'. end to end: two real Networks, limit placed on caller / callee / both / neither; 14 sequential RPCs each aiming one of the four frames (request header via a padded header value, request body, response header via a padded response header, response body) at limit-2..limit+2 of an applicable limit, compared with the reference classification (success / refused by sender before transmission / refused by receiver / response refused); plus 8 MiB-boundary and 12/32 MiB RPCs with no limit. every error must be an error for that RPC only: no hang, no truncated Ok, listing unchanged, no LostPeer, follow-up RPC succeeds One configured limit in ten is 2^32, 2^32+64, 2^33+1000 or usize::MAX (legal values beyond what a 4-byte length prefix expresses) with ordinary message sizes: nothing may be refused.".into(),
        assumptions: vec!["header-frame sizes are computed by the independent reference encoder".into()],
        summary,
        extra: Default::default(),
        exhaustive: None,
        min_signatures: 10,
        required_counters: vec!["codec_boundary_checks", "expect:Success", "expect:CallerRefusesRequest", "expect:CalleeRefusesRequest", "expect:CalleeCannotSendResponse", "expect:CallerRefusesResponse"],
    })
}
