//! C08 – shutdown always completes, releases everything and never panics.
//!
//! E2 (this file, `teardown_*`): sub-process trials on real sockets and a multi-threaded runtime.
//! E1 (`sim_scenario`): shutdown at a swept instant of a simulated in-flight mix, virtual time.

use super::Ctx;
use crate::runner::{self, Report, RunCfg, ScenarioResult, Summary};
use serde_json::json;
use std::{
    io::Read,
    process::{Command, Stdio},
    time::{Duration, Instant},
};

fn normalize_msg(m: &str) -> String {
    let mut out = String::new();
    let mut last_digit = false;
    for c in m.chars() {
        if c.is_ascii_digit() {
            if !last_digit {
                out.push('N');
            }
            last_digit = true;
        } else {
            out.push(c);
            last_digit = false;
        }
    }
    out.chars().take(90).collect()
}

fn cpu_ticks(pid: u32) -> Vec<(String, u64)> {
    let mut v = Vec::new();
    if let Ok(rd) = std::fs::read_dir(format!("/proc/{pid}/task")) {
        for e in rd.flatten() {
            if let Ok(s) = std::fs::read_to_string(e.path().join("stat")) {
                if let Some(i) = s.rfind(')') {
                    let f: Vec<&str> = s[i + 2..].split_whitespace().collect();
                    if f.len() > 13 {
                        let ut: u64 = f[11].parse().unwrap_or(0);
                        let st: u64 = f[12].parse().unwrap_or(0);
                        v.push((e.file_name().to_string_lossy().into_owned(), ut + st));
                    }
                }
            }
        }
    }
    v
}

/// One sub-process trial.
pub fn teardown_trial(idx: usize, seed: u64) -> ScenarioResult {
    let exe = std::env::current_exe().unwrap();
    let mode = (idx % 5) as u8;
    // delay grid: 0..50 ms in 250 us steps (idx walks the grid), plus a seeded fine offset
    // (a sanitizer build is several times slower: the companion stretches the grid so that the
    // tear-down still lands while traffic is flowing, not before the first handshake is done)
    let scale: u64 = std::env::var("VERIF_DELAY_SCALE").ok().and_then(|s| s.parse().ok()).unwrap_or(1);
    let delay_us = (((idx / 5) as u64 * 250) % 50_000 + seed % 250) * scale;
    let nets = 4 + (seed as usize % 3);
    let mut child = Command::new(exe)
        .args(["C08", "--trial", &seed.to_string(), &delay_us.to_string(), &mode.to_string(), &nets.to_string()])
        .stdout(Stdio::piped())
        .stderr(Stdio::piped())
        .spawn()
        .expect("spawn trial");
    let pid = child.id();
    let start = Instant::now();
    let mut hang_diag: Option<String> = None;
    let status = loop {
        match child.try_wait() {
            Ok(Some(st)) => break Some(st),
            Ok(None) => {}
            Err(_) => break None,
        }
        if start.elapsed() > Duration::from_secs(40) {
            // hang diagnosis: is some thread burning CPU?
            let a = cpu_ticks(pid);
            std::thread::sleep(Duration::from_secs(2));
            let b = cpu_ticks(pid);
            let busy: Vec<String> = b
                .iter()
                .filter_map(|(t, tb)| a.iter().find(|(ta, _)| ta == t).map(|(_, ta)| (t.clone(), tb - ta)))
                .filter(|(_, d)| *d > 100)
                .map(|(t, d)| format!("tid {t}: {d} ticks/2s"))
                .collect();
            let bt = Command::new("gdb")
                .args(["-p", &pid.to_string(), "-batch", "-ex", "thread apply all bt 25"])
                .output()
                .map(|o| String::from_utf8_lossy(&o.stdout).into_owned())
                .unwrap_or_default();
            let anemo_spin = !busy.is_empty() && bt.contains("anemo::network::connection_manager");
            hang_diag = Some(format!(
                "busy={busy:?} anemo_frames={anemo_spin} bt={}",
                bt.lines().filter(|l| l.contains("anemo") || l.starts_with("Thread")).take(30).collect::<Vec<_>>().join(" / ")
            ));
            let _ = child.kill();
            let _ = child.wait();
            let r = if anemo_spin {
                ScenarioResult::violated(
                    "runtime tear-down hangs: a thread spins inside the connection manager",
                    json!({"trial": idx, "seed": seed, "mode": mode, "delay_us": delay_us, "diagnosis": hang_diag}),
                )
                .with_key("C08:teardown-spin")
            } else {
                ScenarioResult::inconclusive("tear-down trial did not finish in 40 s (no spinning anemo thread found)")
            };
            return r.count("teardown_trials", 1);
        }
        std::thread::sleep(Duration::from_millis(5));
    };
    let mut out = String::new();
    let mut err = String::new();
    if let Some(mut s) = child.stdout.take() {
        let _ = s.read_to_string(&mut out);
    }
    if let Some(mut s) = child.stderr.take() {
        let _ = s.read_to_string(&mut err);
    }
    let panics: Vec<(String, String)> = err
        .lines()
        .filter_map(|l| l.strip_prefix("PANIC|"))
        .map(|l| {
            let mut it = l.splitn(3, '|');
            (runner::norm_location(it.next().unwrap_or("")), normalize_msg(it.next().unwrap_or("")))
        })
        .collect();
    let rpcs_ok: u64 = out.lines().find_map(|l| l.strip_prefix("RPCS-OK ")).and_then(|s| s.trim().parse().ok()).unwrap_or(0);
    let dropped = out.contains("RUNTIME-DROPPED");
    let code = status.and_then(|s| s.code());
    let mode_name = ["drop-runtime-handles-alive", "drop-handles-then-runtime", "drop-runtime-during-shutdown", "shutdown-then-drop", "shutdown-rebind"][mode as usize];
    let sample = json!({"trial": idx, "seed": seed, "mode": mode_name, "delay_us": delay_us, "networks": nets,
        "rpcs_ok_before_teardown": rpcs_ok, "exit": code, "runtime_dropped": dropped,
        "shutdown_lines": out.lines().filter(|l| l.starts_with("SHUTDOWN")).take(8).collect::<Vec<_>>()});
    let mut res = if !panics.is_empty() {
        // key on the first panic inside anemo; dependency/harness panics keep the raw location
        let first = panics.iter().find(|(l, _)| l.starts_with("crates/anemo")).unwrap_or(&panics[0]).clone();
        let mut wit = sample.clone();
        wit["panics"] = json!(panics.iter().take(12).collect::<Vec<_>>());
        ScenarioResult::violated(
            format!("panic during runtime tear-down ({mode_name}, after {delay_us} us): {} at {}", first.1, first.0),
            wit,
        )
        .with_key(format!("C08:teardown-panic:{}:{}", first.0.split(':').next().unwrap_or(""), first.1))
    } else if code == Some(3) {
        // which clause failed?
        let lines: Vec<&str> = out.lines().filter(|l| l.starts_with("SHUTDOWN addr")).collect();
        let field = |l: &str, k: &str| -> String { l.split_whitespace().find_map(|t| t.strip_prefix(k).map(|v| v.to_owned())).unwrap_or_default() };
        let mut other = Vec::new();
        let mut rebind_after_timeout = 0u64;
        let mut rebind_late_after_idle = 0u64;
        for l in &lines {
            let took: u64 = field(l, "took_ms=").parse().unwrap_or(0);
            let bound: u64 = field(l, "idle_bound_ms=").parse().unwrap_or(0);
            let rest_ok = field(l, "returned=") == "true" && field(l, "closed=") == "true" && field(l, "peers=") == "0" && field(l, "subscribe_err=") == "true" && field(l, "weak_dead=") == "true" && field(l, "service_clones_live=") == "0" && field(l, "handlers_running=") == "0";
            if !rest_ok {
                other.push(l.to_string());
            } else if field(l, "rebind_ok=") == "false" {
                let late: i64 = field(l, "rebind_late_ms=").parse().unwrap_or(-1);
                if late < 0 {
                    other.push(l.to_string()); // the address never became free: the socket is not released at all
                } else if took >= bound {
                    rebind_after_timeout += 1; // the idle wait hit its bound: draining connections still hold the socket
                } else {
                    rebind_late_after_idle += 1; // idle was reached, a finishing connection task released the socket a moment later
                }
            }
        }
        if other.is_empty() && (rebind_after_timeout > 0 || rebind_late_after_idle > 0) {
            let mut r = ScenarioResult::held(format!("teardown mode={mode_name} rebind-late")).with_sample(sample.clone());
            if rebind_after_timeout > 0 {
                r.note("C08:rebind-after-idle-wait-timeout", rebind_after_timeout, "shutdown() hit its idle-wait bound and returned while draining connections still referenced the old socket: binding the address right away failed (and succeeded a moment later)");
            }
            if rebind_late_after_idle > 0 {
                r.note("C08:rebind-late-after-idle", rebind_late_after_idle, "shutdown() returned after the endpoint was idle, yet binding the address right away failed and succeeded a moment later: a finishing connection task still referenced the old socket");
            }
            r
        } else {
            ScenarioResult::violated(
                format!("after shutdown() returned the network is not fully released or shutdown exceeded its bound: {:?}", other.first()),
                sample.clone(),
            )
        }
    } else if code != Some(0) || !dropped {
        ScenarioResult::inconclusive(format!("trial exited with {code:?}: {}", err.lines().last().unwrap_or("")))
    } else {
        ScenarioResult::held(format!("teardown mode={mode_name} delay_bucket={}ms traffic={}", delay_us / 10_000 * 10, rpcs_ok > 0)).with_sample(sample)
    };
    res.add("teardown_trials", 1);
    res.add(&format!("teardown_mode:{mode_name}"), 1);
    res.add("teardown_rpcs_ok_before", rpcs_ok);
    res.add("rebind_checks", out.lines().filter(|l| l.starts_with("SHUTDOWN addr")).count() as u64);
    res
}

pub fn run(ctx: &Ctx) -> i32 {
    // sub-process entry
    if ctx.args.first().map(|s| s.as_str()) == Some("--trial") {
        let seed: u64 = ctx.args[1].parse().unwrap();
        let delay: u64 = ctx.args[2].parse().unwrap();
        let mode: u8 = ctx.args[3].parse().unwrap();
        let nets: usize = ctx.args[4].parse().unwrap();
        return super::c08_trial::run_trial(seed, delay, mode, nets);
    }
    let tier = ctx.tier;
    let n_trials = tier.pick(200, 5_000);
    let n_sim = tier.pick(6_000, 150_000);
    let cfg = RunCfg {
        property: "C08",
        tier,
        seed: ctx.seed,
        scenarios: n_trials + n_sim,
        threads: 8,
        watchdog: Duration::from_secs(90),
        budget: Duration::from_secs(tier.pick(120, 1500)),
        only: ctx.only,
    };
    // "never hangs": a simulated scenario whose thread is diagnosed as spinning inside the library
    // is a verdict (the watchdog by itself never is)
    runner::set_spin_is_violation(true);
    let summary: Summary = runner::run_scenarios(&cfg, move |i, s| if i < n_trials { teardown_trial(i, s) } else { sim_scenario(i - n_trials, s) });
    runner::finish(Report {
        property: "C08",
        tier,
        seed: ctx.seed,
        level: "fault_enumeration",
        rule: "E1: simulated shutdown (virtual time) of a network with a seeded in-flight mix (RPCs in both directions with fast/slow/never-finishing handlers, handlers holding an upgraded NetworkRef, dials to black-holed/reachable/wrong-identity addresses, an inbound handshake whose acknowledgement is withheld, background dials, racing API calls, repeated shutdown() calls), at an instant swept in 100 us / 1 ms steps, by shutdown() or by dropping the last handle; oracle: completes within shutdown_idle_timeout + 1 s, then closed/no peers/subscribe errs/weak refs dead/0 live service clones, subscriber gets its LostPeer events then end-of-stream, every pending call returns, calls issued afterwards fail promptly, remote peers drop the network, no panic. fault = the instant at which the runtime is torn down / the network is shut down. E2: sub-process trials with 4-6 real Networks on UDP loopback, a 4-worker runtime, continuous explicit dials, background dials (incl. a black-holed High peer), disconnects and RPCs; the tear-down delay walks a 0-50 ms grid in 250 us steps in five modes (drop runtime with handles alive, drop handles first, drop while shutdown() is in progress, after shutdown() completed, shutdown + immediate re-bind of the address); oracle: no panic line on stderr, exit 0, drop(runtime) returns, after shutdown(): closed, no peers, subscribe errs, weak refs dead, address re-bindable; a trial that does not finish in 40 s is a violation only if a CPU-accumulating thread with connection-manager frames is found (gdb), else inconclusive Additions: 35% of the simulated shutdown() calls come with a burst of 100-400 connect() calls polled once in the same instant (more than the manager's mailbox holds); E2: two thirds of the trials start the delay clock at the first answered RPC, half of the shutdown trials keep one RPC per network in flight whose handler is inside a non-yielding section of 20-150 ms, and at the return of shutdown() the live service clones and the handlers of that network that have neither finished nor been dropped must both be 0.".into(),
        assumptions: vec!["tear-down instants are sampled on a time grid and depend on OS scheduling".into()],
        summary,
        extra: Default::default(),
        exhaustive: None,
        min_signatures: 6,
        required_counters: vec!["teardown_trials", "teardown_rpcs_ok_before", "rebind_checks", "sim_shutdowns", "sim_inflight_items", "sim_by_drop", "sim_by_shutdown_call", "sim_api_bursts"],
    })
}

// ------------------------------------------------------------------------------------------------
// E1: shutdown at a swept instant of a simulated in-flight mix (virtual time)

use crate::{
    fabric::LinkParams,
    world::{self, DrainEnd, NodeCfg, RpcSpec, Script, World, NEVER},
};
use anemo::types::{PeerAffinity, PeerEvent, PeerInfo};
use rand::{rngs::StdRng, Rng, SeedableRng};
use std::sync::atomic::Ordering;

pub fn sim_scenario(idx: usize, seed: u64) -> ScenarioResult {
    let _ = runner::take_panics();
    let res = runner::sim_block_on(|| async move {
        let mut w = World::new(seed);
        let mut rng = StdRng::seed_from_u64(seed ^ 0xc08);
        let lat = Duration::from_millis(rng.gen_range(1..6));
        w.fabric.set_default_link(LinkParams::fixed(lat));
        w.fabric.enable_tap(true);
        let idle_ms: u64 = *[500u64, 2_000].get(idx % 2).unwrap();
        let by_drop = (idx / 2) % 3 == 2; // one third: drop the last handle instead of shutdown()
        let mk = |w: &mut World, idle_ms: u64| {
            let mut c = NodeCfg::new(w.gen_key());
            c.config.shutdown_idle_timeout_ms = Some(idle_ms);
            c.config.connect_timeout_ms = Some(3_000);
            c.config.connectivity_check_interval_ms = Some(200);
            let mut q = anemo::QuicConfig::default();
            q.max_idle_timeout_ms = Some(8_000);
            q.keep_alive_interval_ms = Some(2_000);
            c.config.quic = Some(q);
            c
        };
        let cs = mk(&mut w, idle_ms);
        let s = w.start_node(cs).unwrap();
        let mut peers = Vec::new();
        for _ in 0..3 {
            let c = mk(&mut w, 1_000);
            peers.push(w.start_node(c).unwrap());
        }
        // established: S -> P0 (outbound at S), P1 -> S (inbound at S)
        if s.net.connect(peers[0].addr).await.is_err() || peers[1].net.connect(s.addr).await.is_err() {
            w.close();
            return ScenarioResult::inconclusive("setup dial failed");
        }
        tokio::time::sleep(Duration::from_millis(100)).await;
        let weak = s.net.downgrade();
        let (s_idx, s_addr, s_id) = (s.idx, s.addr, s.peer_id);
        let svc_live = s.svc_live.clone();
        // ---- the in-flight mix
        let mut pending: Vec<(String, tokio::task::JoinHandle<bool>)> = Vec::new();
        let mut mix: Vec<&'static str> = Vec::new();
        let spawn_rpc = |from_net: anemo::Network, from_idx: usize, to: anemo::PeerId, delay: u64, hold: bool, log: std::sync::Arc<world::Log>| {
            tokio::spawn(async move {
                let mut spec = RpcSpec::simple(500, 1).with_script(Script { delay_us: delay, resp_len: 50_000, status: 200, nhdr: 0, seed: 9 });
                if hold {
                    spec.headers.insert("vhold".into(), "1".into());
                }
                let (_, r) = world::rpc(&log, &from_net, from_idx, to, &spec).await;
                r.is_ok()
            })
        };
        for _ in 0..rng.gen_range(0..6) {
            let delay = *[0u64, 20_000, 5_000_000, NEVER].get(rng.gen_range(0..4)).unwrap();
            pending.push(("rpc S->P0".into(), spawn_rpc(s.net.clone(), s_idx, peers[0].peer_id, delay, false, w.log.clone())));
            mix.push("rpc-out");
        }
        for _ in 0..rng.gen_range(0..6) {
            let delay = *[0u64, 20_000, 5_000_000, NEVER].get(rng.gen_range(0..4)).unwrap();
            let hold = rng.gen_bool(0.3);
            pending.push(("rpc P1->S".into(), spawn_rpc(peers[1].net.clone(), peers[1].idx, s_id, delay, hold, w.log.clone())));
            mix.push(if hold { "rpc-in-holding-networkref" } else { "rpc-in" });
        }
        // calls that are in flight but NOT being polled when the shutdown comes (stragglers in a
        // FuturesUnordered, the losing arm of a select!): polled once, then merely kept alive until
        // the end of the scenario - whatever they hold must not keep the network's parts alive
        let mut parked: Vec<std::pin::Pin<Box<dyn std::future::Future<Output = bool> + Send>>> = Vec::new();
        for _ in 0..rng.gen_range(0..3) {
            let (n, log, p0) = (s.net.clone(), w.log.clone(), peers[0].peer_id);
            let delay = *[20_000u64, 5_000_000, NEVER].get(rng.gen_range(0..3)).unwrap();
            let mut f: std::pin::Pin<Box<dyn std::future::Future<Output = bool> + Send>> = Box::pin(async move {
                let spec = RpcSpec::simple(300, 4).with_script(Script { delay_us: delay, resp_len: 100, status: 200, nhdr: 0, seed: 9 });
                world::rpc(&log, &n, s_idx, p0, &spec).await.1.is_ok()
            });
            let _ = futures::poll!(&mut f);
            parked.push(f);
            mix.push("rpc-out-parked-unpolled");
        }
        if rng.gen_bool(0.6) {
            let n = s.net.clone();
            pending.push(("dial S->blackhole".into(), tokio::spawn(async move { n.connect("10.98.0.1:1".parse::<std::net::SocketAddr>().unwrap()).await.is_ok() })));
            mix.push("dial-blackhole");
        }
        if rng.gen_bool(0.6) {
            let n = s.net.clone();
            let a = peers[2].addr;
            pending.push(("dial S->P2".into(), tokio::spawn(async move { n.connect(a).await.is_ok() })));
            mix.push("dial-reachable");
        }
        if rng.gen_bool(0.4) {
            let n = s.net.clone();
            let (a, wrong) = (peers[2].addr, peers[0].peer_id);
            pending.push(("pinned dial S->P2 expecting P0".into(), tokio::spawn(async move { n.connect_with_peer_id(a, wrong).await.is_ok() })));
            mix.push("dial-wrong-pin");
        }
        if rng.gen_bool(0.5) {
            // inbound handshake held half-way: S's datagrams towards P2 are withheld for a while
            let (sa, pa) = (s_addr, peers[2].addr);
            w.fabric.add_drop_rule(rng.gen_range(1..6), Box::new(move |t| t.src == sa && t.dst == pa));
            let n = peers[2].net.clone();
            pending.push(("dial P2->S (ack withheld)".into(), tokio::spawn(async move { n.connect(sa).await.is_ok() })));
            mix.push("inbound-handshake-halfway");
        }
        if rng.gen_bool(0.5) {
            s.net.known_peers().insert(PeerInfo {
                peer_id: world::peer_id_of_key(&w.gen_key()),
                affinity: PeerAffinity::High,
                address: vec!["10.98.0.2:1".parse::<std::net::SocketAddr>().unwrap().into()],
            });
            mix.push("background-dial");
        }
        // the shutdown instant is the enumerated fault: 100 us steps through the first handshakes,
        // 1 ms steps afterwards
        let off_us: u64 = if idx % 4 < 2 { (idx as u64 / 4 % 64) * 100 } else { (idx as u64 / 4 % 64) * 1_000 };
        tokio::time::sleep(Duration::from_micros(off_us)).await;
        // concurrent API calls racing the shutdown
        let n_extra_shutdowns = rng.gen_range(0..3);
        for k in 0..n_extra_shutdowns {
            let n = s.net.clone();
            let d = Duration::from_micros(rng.gen_range(0..3_000));
            pending.push((format!("shutdown #{}", k + 2), tokio::spawn(async move {
                tokio::time::sleep(d).await;
                let _ = n.shutdown().await;
                true
            })));
            mix.push("repeated-shutdown");
        }
        {
            let n = s.net.clone();
            let a = peers[2].addr;
            let p0 = peers[0].peer_id;
            let log = w.log.clone();
            pending.push(("api calls racing".into(), tokio::spawn(async move {
                for _ in 0..20 {
                    let _ = n.peers();
                    let _ = n.subscribe();
                    let _ = n.disconnect(p0);
                    let _ = tokio::time::timeout(Duration::from_secs(20), n.connect(a)).await;
                    let _ = tokio::time::timeout(Duration::from_secs(20), world::rpc(&log, &n, s_idx, p0, &RpcSpec::simple(10, 2))).await;
                    tokio::time::sleep(Duration::from_micros(300)).await;
                }
                true
            })));
        }
        // a burst of API calls issued in the same instant as the shutdown: every one of them is polled
        // once (so its request sits in, or waits for, the connection manager's mailbox - more of them
        // than the mailbox holds) and only then shutdown() is called
        let api_burst = !by_drop && rng.gen_bool(0.35);
        if api_burst {
            use futures::StreamExt;
            let mut burst = futures::stream::FuturesUnordered::new();
            let n_calls = *[100usize, 127, 128, 129, 200, 400].get(rng.gen_range(0..6)).unwrap();
            for i in 0..n_calls {
                let n = s.net.clone();
                let reachable = peers[2].addr;
                let kind = rng.gen_range(0..3);
                burst.push(async move {
                    match kind {
                        0 => n.connect(reachable).await.is_ok(),
                        _ => n.connect(format!("10.98.{}.{}:1", 1 + i / 250, 1 + i % 250).parse::<std::net::SocketAddr>().unwrap()).await.is_ok(),
                    }
                });
            }
            // (one task cannot fill the mailbox within tokio's per-tick cooperative budget of 128
            // operations; tasks on several workers of a real program can, so the budget is lifted
            // for this one poll)
            let _ = tokio::task::unconstrained(async { futures::poll!(burst.next()) }).await;
            pending.push((format!("burst of {n_calls} connect() calls"), tokio::spawn(async move {
                while burst.next().await.is_some() {}
                true
            })));
            mix.push("api-burst-beyond-mailbox-capacity");
        }
        let connected_before: Vec<anemo::PeerId> = s.net.peers();
        let lists_s_before: Vec<usize> = peers.iter().enumerate().filter(|(_, p)| p.net.peers().contains(&s_id)).map(|(i, _)| i).collect();
        let mut problems: Vec<String> = Vec::new();
        let t0 = w.now();
        let bound_us = idle_ms * 1_000 + 1_000_000;
        let mut shutdown_took = 0u64;
        let s_sync = s; // keep Node (and its synchronous subscription) for the event checks
        if by_drop {
            // abort every task holding a clone, then drop the last handle
            for (_, h) in pending.drain(..) {
                h.abort();
            }
            parked.clear(); // they own handles too
            tokio::time::sleep(Duration::from_micros(10)).await;
        } else {
            match tokio::time::timeout(Duration::from_micros(bound_us + 30_000_000), s_sync.net.shutdown()).await {
                Ok(_) => {
                    shutdown_took = w.now() - t0;
                    if shutdown_took > bound_us {
                        problems.push(format!("shutdown() took {shutdown_took} us of virtual time; bound is shutdown_idle_timeout ({idle_ms} ms) + 1 s; in flight: {mix:?}"));
                    }
                }
                Err(_) => problems.push(format!("shutdown() did not return within {} s; in flight: {mix:?}", (bound_us + 30_000_000) / 1_000_000)),
            }
        }
        // take what we need from the node, then drop its handle
        let (evs_sync, sync_rx_node) = {
            let node = s_sync;
            if by_drop {
                let net = node.net.clone();
                drop(net);
            }
            // keep only the subscription
            let crate::world::Node { net, sync_rx, sync_state, .. } = node;
            let after = if by_drop { None } else { Some(net.clone()) };
            drop(net);
            ((sync_rx, sync_state), after)
        };
        let net_after = sync_rx_node;
        if by_drop {
            // same end state within the same bound, observed through the weak ref / counters
            let ok = world::wait_until(Duration::from_micros(bound_us), Duration::from_millis(5), || weak.upgrade().is_none() && svc_live.load(Ordering::SeqCst) == 0).await;
            shutdown_took = w.now() - t0;
            if !ok {
                problems.push(format!("after dropping the last handle the network was not torn down within the bound (weak upgradable: {}, live service clones: {})", weak.upgrade().is_some(), svc_live.load(Ordering::SeqCst)));
            }
        }
        // ---- afterwards
        if let Some(n) = &net_after {
            if !n.is_closed() {
                problems.push("is_closed() is false after shutdown() returned".into());
            }
            if !n.peers().is_empty() {
                problems.push("peers() is not empty after shutdown".into());
            }
            if n.subscribe().is_ok() {
                problems.push("subscribe() succeeds after shutdown".into());
            }
            let live = svc_live.load(Ordering::SeqCst);
            if live != 0 {
                problems.push(format!("{live} clones of the user's service are still alive after shutdown() returned"));
            }
            // API calls issued after shutdown: error, promptly
            let a = peers[2].addr;
            let p0 = peers[0].peer_id;
            let t = w.now();
            let r1 = tokio::time::timeout(Duration::from_secs(5), n.connect(a)).await;
            let r2 = tokio::time::timeout(Duration::from_secs(5), n.rpc(p0, anemo::Request::new(bytes::Bytes::new()))).await;
            let r3 = n.disconnect(p0);
            let r4 = tokio::time::timeout(Duration::from_secs(5), n.shutdown()).await;
            for (name, ok, hung) in [
                ("connect", matches!(r1, Ok(Ok(_))), r1.is_err()),
                ("rpc", matches!(r2, Ok(Ok(_))), r2.is_err()),
                ("shutdown", matches!(r4, Ok(Ok(_))), r4.is_err()),
            ] {
                if hung {
                    problems.push(format!("{name}() issued after shutdown hangs"));
                } else if ok {
                    problems.push(format!("{name}() issued after shutdown succeeded"));
                }
            }
            if r3.is_ok() {
                problems.push("disconnect() issued after shutdown succeeded".into());
            }
            let _ = t;
        }
        if weak.upgrade().is_some() {
            problems.push("a weak reference still upgrades after shutdown".into());
        }
        // subscriber: pending LostPeer events, then end-of-stream
        {
            let (rx, state) = evs_sync;
            let mut rx = rx.into_inner().unwrap();
            let mut st = state.into_inner().unwrap();
            let mut closed = false;
            let mut lost = 0;
            loop {
                match rx.try_recv() {
                    Ok(PeerEvent::NewPeer(p)) => {
                        st.insert(p);
                    }
                    Ok(PeerEvent::LostPeer(p, _)) => {
                        lost += 1;
                        if !st.remove(&p) {
                            problems.push("subscriber received LostPeer for a peer that was not connected in its view".into());
                        }
                    }
                    Err(tokio::sync::broadcast::error::TryRecvError::Closed) => {
                        closed = true;
                        break;
                    }
                    Err(tokio::sync::broadcast::error::TryRecvError::Empty) => break,
                    Err(tokio::sync::broadcast::error::TryRecvError::Lagged(_)) => break,
                }
            }
            if !closed {
                problems.push("subscriber stream did not end after shutdown".into());
            }
            if !st.is_empty() {
                problems.push(format!("subscriber never received LostPeer for {} peer(s) that were connected when the network shut down", st.len()));
            }
            let _ = (lost, DrainEnd::Closed);
        }
        // pending calls: all return
        for (name, h) in pending.drain(..) {
            match tokio::time::timeout(Duration::from_secs(30), h).await {
                Ok(_) => {}
                Err(_) => problems.push(format!("'{name}', pending when the network shut down, never returned")),
            }
        }
        // remote peers observe the disconnect
        // a CONNECTION_CLOSE can be held back by a full congestion window, in which case the remote
        // end learns of the shutdown through its idle timer, which its own keep-alive re-arms once:
        // idle timeout (8 s) + keep-alive interval (2 s) + slack
        let dl = 8_000_000 + 2_000_000 + 2_000_000;
        let all_lost = world::wait_until(Duration::from_micros(dl), Duration::from_millis(20), || peers.iter().all(|p| !p.net.peers().contains(&s_id))).await;
        let mut dbg = serde_json::Map::new();
        if !all_lost {
            problems.push("a remote peer still lists the network after shutdown + idle timeout".into());
            let g = w.log.lock();
            for (i, p) in peers.iter().enumerate() {
                dbg.insert(format!("peer{i}"), json!({
                    "lists_s": p.net.peers().contains(&s_id),
                    "events": g.events.get(&p.idx).map(|v| v.iter().map(|e| format!("t={} {:?}", e.t, e.ev).chars().take(70).collect::<String>()).collect::<Vec<_>>()),
                }));
            }
            dbg.insert("now".into(), json!(w.now()));
            dbg.insert("t0".into(), json!(t0));
            dbg.insert("s_attached".into(), json!(w.fabric.is_attached(s_addr)));
            let tap = w.fabric.take_tap();
            let p1 = peers[1].addr;
            dbg.insert("tap_s_p1_after_t0".into(), json!(tap.iter().filter(|r| r.t_us + 5_000 >= t0 && ((r.src == s_addr && r.dst == p1) || (r.src == p1 && r.dst == s_addr))).take(120).map(|r| format!("t={} {}->{} len={} {:?}", r.t_us, r.src.port(), r.dst.port(), r.len, r.fate)).collect::<Vec<_>>()));
        }
        let sample = json!({"kind": "simulated shutdown", "scenario": idx, "seed": seed, "how": if by_drop {"drop last handle"} else {"shutdown()"},
            "shutdown_idle_timeout_ms": idle_ms, "offset_us": off_us, "in_flight": mix, "connected_before": connected_before.len(),
            "remote_listing_before": lists_s_before, "completed_after_us": shutdown_took});
        drop(parked);
        w.close();
        let mut res = if !problems.is_empty() {
            let mut wit = sample;
            wit["problems"] = json!(problems);
            wit["debug"] = serde_json::Value::Object(dbg);
            ScenarioResult::violated(problems[0].clone(), wit)
        } else {
            let mut kinds: Vec<&str> = mix.clone();
            kinds.sort();
            kinds.dedup();
            ScenarioResult::held(format!("sim how={} idle={idle_ms} mix={}", if by_drop { "drop" } else { "shutdown" }, kinds.len())).with_sample(sample)
        };
        res.add("sim_shutdowns", 1);
        res.add("sim_inflight_items", mix.len() as u64);
        res.add(if by_drop { "sim_by_drop" } else { "sim_by_shutdown_call" }, 1);
        if mix.contains(&"api-burst-beyond-mailbox-capacity") {
            res.add("sim_api_bursts", 1);
        }
        res
    });
    let panics = runner::take_panics();
    if !panics.is_empty() {
        let first = &panics[0];
        let mut r = ScenarioResult::violated(
            format!("panic during shutdown: {} at {}", first.message, runner::norm_location(&first.location)),
            json!({"scenario": idx, "seed": seed, "panics": panics}),
        );
        r.counters = res.counters;
        return r;
    }
    res
}
