//! C08 – shutdown always completes, releases everything and never panics.
//!
//! E2 (this file, `teardown_*`): sub-process trials on real sockets and a multi-threaded runtime.
//! E1 (`sim_scenario`): shutdown at a swept instant of a simulated in-flight mix, virtual time.

use super::Ctx;
use crate::runner::{self, Report, RunCfg, ScenarioResult, Summary};
use serde_json::json;
use std::{
    io::Read,
    process::{Command, Stdio},
    time::{Duration, Instant},
};

fn normalize_msg(m: &str) -> String {
    let mut out = String::new();
    let mut last_digit = false;
    for c in m.chars() {
        if c.is_ascii_digit() {
            if !last_digit {
                out.push('N');
            }
            last_digit = true;
        } else {
            out.push(c);
            last_digit = false;
        }
    }
    out.chars().take(90).collect()
}

fn cpu_ticks(pid: u32) -> Vec<(String, u64)> {
    let mut v = Vec::new();
    if let Ok(rd) = std::fs::read_dir(format!("/proc/{pid}/task")) {
        for e in rd.flatten() {
            if let Ok(s) = std::fs::read_to_string(e.path().join("stat")) {
                if let Some(i) = s.rfind(')') {
                    let f: Vec<&str> = s[i + 2..].split_whitespace().collect();
                    if f.len() > 13 {
                        let ut: u64 = f[11].parse().unwrap_or(0);
                        let st: u64 = f[12].parse().unwrap_or(0);
                        v.push((e.file_name().to_string_lossy().into_owned(), ut + st));
                    }
                }
            }
        }
    }
    v
}

/// One sub-process trial.
pub fn teardown_trial(idx: usize, seed: u64) -> ScenarioResult {
    let exe = std::env::current_exe().unwrap();
    let mode = (idx % 5) as u8;
    // delay grid: 0..50 ms in 250 us steps (idx walks the grid), plus a seeded fine offset
    let delay_us = ((idx / 5) as u64 * 250) % 50_000 + seed % 250;
    let nets = 4 + (seed as usize % 3);
    let mut child = Command::new(exe)
        .args(["C08", "--trial", &seed.to_string(), &delay_us.to_string(), &mode.to_string(), &nets.to_string()])
        .stdout(Stdio::piped())
        .stderr(Stdio::piped())
        .spawn()
        .expect("spawn trial");
    let pid = child.id();
    let start = Instant::now();
    let mut hang_diag: Option<String> = None;
    let status = loop {
        match child.try_wait() {
            Ok(Some(st)) => break Some(st),
            Ok(None) => {}
            Err(_) => break None,
        }
        if start.elapsed() > Duration::from_secs(40) {
            // hang diagnosis: is some thread burning CPU?
            let a = cpu_ticks(pid);
            std::thread::sleep(Duration::from_secs(2));
            let b = cpu_ticks(pid);
            let busy: Vec<String> = b
                .iter()
                .filter_map(|(t, tb)| a.iter().find(|(ta, _)| ta == t).map(|(_, ta)| (t.clone(), tb - ta)))
                .filter(|(_, d)| *d > 100)
                .map(|(t, d)| format!("tid {t}: {d} ticks/2s"))
                .collect();
            let bt = Command::new("gdb")
                .args(["-p", &pid.to_string(), "-batch", "-ex", "thread apply all bt 25"])
                .output()
                .map(|o| String::from_utf8_lossy(&o.stdout).into_owned())
                .unwrap_or_default();
            let anemo_spin = !busy.is_empty() && bt.contains("anemo::network::connection_manager");
            hang_diag = Some(format!(
                "busy={busy:?} anemo_frames={anemo_spin} bt={}",
                bt.lines().filter(|l| l.contains("anemo") || l.starts_with("Thread")).take(30).collect::<Vec<_>>().join(" / ")
            ));
            let _ = child.kill();
            let _ = child.wait();
            let r = if anemo_spin {
                ScenarioResult::violated(
                    "runtime tear-down hangs: a thread spins inside the connection manager",
                    json!({"trial": idx, "seed": seed, "mode": mode, "delay_us": delay_us, "diagnosis": hang_diag}),
                )
                .with_key("C08:teardown-spin")
            } else {
                ScenarioResult::inconclusive("tear-down trial did not finish in 40 s (no spinning anemo thread found)")
            };
            return r.count("teardown_trials", 1);
        }
        std::thread::sleep(Duration::from_millis(5));
    };
    let mut out = String::new();
    let mut err = String::new();
    if let Some(mut s) = child.stdout.take() {
        let _ = s.read_to_string(&mut out);
    }
    if let Some(mut s) = child.stderr.take() {
        let _ = s.read_to_string(&mut err);
    }
    let panics: Vec<(String, String)> = err
        .lines()
        .filter_map(|l| l.strip_prefix("PANIC|"))
        .map(|l| {
            let mut it = l.splitn(3, '|');
            (runner::norm_location(it.next().unwrap_or("")), normalize_msg(it.next().unwrap_or("")))
        })
        .collect();
    let rpcs_ok: u64 = out.lines().find_map(|l| l.strip_prefix("RPCS-OK ")).and_then(|s| s.trim().parse().ok()).unwrap_or(0);
    let dropped = out.contains("RUNTIME-DROPPED");
    let code = status.and_then(|s| s.code());
    let mode_name = ["drop-runtime-handles-alive", "drop-handles-then-runtime", "drop-runtime-during-shutdown", "shutdown-then-drop", "shutdown-rebind"][mode as usize];
    let sample = json!({"trial": idx, "seed": seed, "mode": mode_name, "delay_us": delay_us, "networks": nets,
        "rpcs_ok_before_teardown": rpcs_ok, "exit": code, "runtime_dropped": dropped,
        "shutdown_lines": out.lines().filter(|l| l.starts_with("SHUTDOWN")).take(8).collect::<Vec<_>>()});
    let mut res = if !panics.is_empty() {
        // key on the first panic inside anemo; dependency/harness panics keep the raw location
        let first = panics.iter().find(|(l, _)| l.starts_with("crates/anemo")).unwrap_or(&panics[0]).clone();
        let mut wit = sample.clone();
        wit["panics"] = json!(panics.iter().take(12).collect::<Vec<_>>());
        ScenarioResult::violated(
            format!("panic during runtime tear-down ({mode_name}, after {delay_us} us): {} at {}", first.1, first.0),
            wit,
        )
        .with_key(format!("C08:teardown-panic:{}:{}", first.0.split(':').next().unwrap_or(""), first.1))
    } else if code == Some(3) {
        // which clause failed?
        let lines: Vec<&str> = out.lines().filter(|l| l.starts_with("SHUTDOWN addr")).collect();
        let field = |l: &str, k: &str| -> String { l.split_whitespace().find_map(|t| t.strip_prefix(k).map(|v| v.to_owned())).unwrap_or_default() };
        let mut other = Vec::new();
        let mut rebind_after_timeout = 0u64;
        for l in &lines {
            let took: u64 = field(l, "took_ms=").parse().unwrap_or(0);
            let bound: u64 = field(l, "idle_bound_ms=").parse().unwrap_or(0);
            let rest_ok = field(l, "returned=") == "true" && field(l, "closed=") == "true" && field(l, "peers=") == "0" && field(l, "subscribe_err=") == "true" && field(l, "weak_dead=") == "true" && took <= bound + 1_000;
            if !rest_ok {
                other.push(l.to_string());
            } else if field(l, "rebind_ok=") == "false" {
                if took >= bound {
                    rebind_after_timeout += 1; // the idle wait hit its bound: draining connections still hold the socket
                } else {
                    other.push(l.to_string());
                }
            }
        }
        if other.is_empty() && rebind_after_timeout > 0 {
            let mut r = ScenarioResult::held(format!("teardown mode={mode_name} rebind-after-timeout")).with_sample(sample.clone());
            r.note("C08:rebind-after-idle-wait-timeout", rebind_after_timeout, "shutdown() hit its idle-wait bound and returned while draining connections still referenced the old socket: binding the address right away failed");
            r
        } else {
            ScenarioResult::violated(
                format!("after shutdown() returned the network is not fully released or shutdown exceeded its bound: {:?}", other.first()),
                sample.clone(),
            )
        }
    } else if code != Some(0) || !dropped {
        ScenarioResult::inconclusive(format!("trial exited with {code:?}: {}", err.lines().last().unwrap_or("")))
    } else {
        ScenarioResult::held(format!("teardown mode={mode_name} delay_bucket={}ms traffic={}", delay_us / 10_000 * 10, rpcs_ok > 0)).with_sample(sample)
    };
    res.add("teardown_trials", 1);
    res.add(&format!("teardown_mode:{mode_name}"), 1);
    res.add("teardown_rpcs_ok_before", rpcs_ok);
    res.add("rebind_checks", out.lines().filter(|l| l.starts_with("SHUTDOWN addr")).count() as u64);
    res
}

pub fn run(ctx: &Ctx) -> i32 {
    // sub-process entry
    if ctx.args.first().map(|s| s.as_str()) == Some("--trial") {
        let seed: u64 = ctx.args[1].parse().unwrap();
        let delay: u64 = ctx.args[2].parse().unwrap();
        let mode: u8 = ctx.args[3].parse().unwrap();
        let nets: usize = ctx.args[4].parse().unwrap();
        return super::c08_trial::run_trial(seed, delay, mode, nets);
    }
    let tier = ctx.tier;
    let n_trials = tier.pick(200, 5_000);
    let cfg = RunCfg {
        property: "C08",
        tier,
        seed: ctx.seed,
        scenarios: n_trials,
        threads: 8,
        watchdog: Duration::from_secs(90),
        budget: Duration::from_secs(tier.pick(120, 1500)),
        only: ctx.only,
    };
    let summary: Summary = runner::run_scenarios(&cfg, teardown_trial);
    runner::finish(Report {
        property: "C08",
        tier,
        seed: ctx.seed,
        level: "fault_enumeration",
        rule: "fault = the instant at which the runtime is torn down / the network is shut down. E2: sub-process trials with 4-6 real Networks on UDP loopback, a 4-worker runtime, continuous explicit dials, background dials (incl. a black-holed High peer), disconnects and RPCs; the tear-down delay walks a 0-50 ms grid in 250 us steps in five modes (drop runtime with handles alive, drop handles first, drop while shutdown() is in progress, after shutdown() completed, shutdown + immediate re-bind of the address); oracle: no panic line on stderr, exit 0, drop(runtime) returns, after shutdown(): closed, no peers, subscribe errs, weak refs dead, address re-bindable; a trial that does not finish in 40 s is a violation only if a CPU-accumulating thread with connection-manager frames is found (gdb), else inconclusive".into(),
        assumptions: vec!["tear-down instants are sampled on a time grid and depend on OS scheduling".into()],
        summary,
        extra: Default::default(),
        exhaustive: None,
        min_signatures: 6,
        required_counters: vec!["teardown_trials", "teardown_rpcs_ok_before", "rebind_checks"],
    })
}
