//! C13 – background dialing: who is dialed, how often, and that it succeeds.
//!
//! Dial attempts are observed on the fabric tap: an attempt is the first QUIC Initial datagram
//! with a not-yet-seen source connection id sent from the node's address.

use super::Ctx;
use crate::{
    fabric::{Fate, LinkParams},
    runner::{self, Report, RunCfg, ScenarioResult},
    world::{self, NodeCfg, World},
};
use anemo::{
    types::{PeerAffinity, PeerEvent, PeerInfo},
    PeerId,
};
use rand::{rngs::StdRng, Rng, SeedableRng};
use serde_json::json;
use std::{
    collections::{BTreeMap, HashMap},
    net::SocketAddr,
    time::Duration,
};

#[derive(Clone, Debug)]
struct Attempt {
    t: u64,
    dst: SocketAddr,
}

/// quinn's connection-id generator does repeat source connection ids over hundreds of
/// connections, so an attempt is identified by (scid, destination) *and* a gap: a datagram opens a
/// new attempt if that pair was not seen during the last `gap_us` (retransmissions of one attempt
/// all fall within the connect timeout).
fn attempts_from_tap(
    tap: &[crate::fabric::TapRecord],
    src: SocketAddr,
    seen: &mut HashMap<(Vec<u8>, SocketAddr), u64>,
    gap_us: u64,
) -> Vec<Attempt> {
    let mut v = Vec::new();
    for r in tap {
        if r.src == src && r.long_type == Some(0) && !r.scid.is_empty() {
            let _ = Fate::Delivered;
            let key = (r.scid.clone(), r.dst);
            let fresh = match seen.get(&key) {
                Some(last) => r.t_us > *last + gap_us,
                None => true,
            };
            seen.insert(key, r.t_us);
            if fresh {
                v.push(Attempt { t: r.t_us, dst: r.dst });
            }
        }
    }
    v
}

fn bh_addr(idx: usize, k: usize) -> SocketAddr {
    format!("10.99.{}.{}:{}", (idx / 200) % 250, 1 + idx % 200, 1000 + k).parse().unwrap()
}

/// Class A: every High peer is black-holed; who / rotation / spacing / cap / keeps-dialing.
pub fn scenario_a(idx: usize, seed: u64) -> ScenarioResult {
    runner::sim_block_on(|| async move {
        let mut w = World::new(seed);
        let mut rng = StdRng::seed_from_u64(seed ^ 0xc13a);
        w.fabric.enable_tap(true);
        w.fabric.set_default_link(LinkParams::fixed(Duration::from_millis(2)));
        let i_ms: u64 = *[100u64, 300, 1_000, 2_500, 5_000].get(rng.gen_range(0..5)).unwrap();
        let b_ms: u64 = rng.gen_range(1..=20) * 1_000;
        let m_ms: u64 = rng.gen_range(b_ms..=60_000);
        let ct_ms: u64 = rng.gen_range(200..=500);
        let cap: usize = *[1usize, 2, 100].get(rng.gen_range(0..3)).unwrap();
        let mut c = NodeCfg::new(w.gen_key());
        c.config.connectivity_check_interval_ms = Some(i_ms);
        c.config.connection_backoff_ms = Some(b_ms);
        c.config.max_connection_backoff_ms = Some(m_ms);
        c.config.connect_timeout_ms = Some(ct_ms);
        c.config.max_concurrent_outstanding_connecting_connections = Some(cap);
        let n = w.start_node(c).unwrap();
        // two honest bystanders that must never be dialed (Allowed / Never with addresses)
        let k1 = w.gen_key();
        let by1 = w.start_node(NodeCfg::new(k1)).unwrap();
        let k2 = w.gen_key();
        let by2 = w.start_node(NodeCfg::new(k2)).unwrap();

        // company (see class B): established connections to parties that are not High peers; they
        // are set up before the table exists and the tap is cleared afterwards, so that only
        // background dials are read off it
        let mut company = Vec::new();
        if rng.gen_bool(0.4) {
            for j in 0..rng.gen_range(1..=8usize) {
                let sk = w.gen_key();
                let st = w.start_node(NodeCfg::new(sk)).unwrap();
                let ok = if j % 2 == 0 { st.net.connect(n.addr).await.is_ok() } else { n.net.connect(st.addr).await.is_ok() };
                if ok {
                    company.push(st);
                }
            }
            tokio::time::sleep(Duration::from_millis(200)).await;
            let _ = w.fabric.take_tap();
        }

        // table
        let n_high = rng.gen_range(1..=6usize);
        let mut addr_owner: HashMap<SocketAddr, usize> = HashMap::new();
        let mut high: Vec<(PeerId, Vec<SocketAddr>)> = Vec::new();
        let mut next_addr = 0usize;
        for h in 0..n_high {
            let pid = world::peer_id_of_key(&w.gen_key());
            let na = rng.gen_range(1..=4usize);
            let mut addrs = Vec::new();
            for _ in 0..na {
                let a = bh_addr(idx, next_addr);
                next_addr += 1;
                addr_owner.insert(a, h);
                addrs.push(a);
            }
            high.push((pid, addrs));
        }
        // one more High peer (index n_high) whose table entry is EDITED while the node runs: removed or
        // demoted to Allowed for a while, then re-inserted as High with the same addresses.  While
        // it is out of the table (or not High) it must not be dialed; rotation and the back-off lower
        // bound continue across the edit (the dial state of a peer is kept per identity); the
        // keeps-dialing upper bounds are not applied to it.
        let edited: Option<usize> = if rng.gen_bool(0.35) {
            let pid = world::peer_id_of_key(&w.gen_key());
            let na = rng.gen_range(1..=3usize);
            let mut addrs = Vec::new();
            for _ in 0..na {
                let a = bh_addr(idx, next_addr);
                next_addr += 1;
                addr_owner.insert(a, n_high);
                addrs.push(a);
            }
            high.push((pid, addrs));
            Some(n_high)
        } else {
            None
        };
        let mut forbidden: HashMap<SocketAddr, &'static str> = HashMap::new();
        let kp = n.net.known_peers();
        for (pid, addrs) in &high {
            kp.insert(PeerInfo {
                peer_id: *pid,
                affinity: PeerAffinity::High,
                address: addrs.iter().map(|a| (*a).into()).collect(),
            });
        }
        // never-dial entries
        let fa = bh_addr(idx, 900);
        kp.insert(PeerInfo { peer_id: n.peer_id, affinity: PeerAffinity::High, address: vec![fa.into(), n.addr.into()] });
        forbidden.insert(fa, "itself");
        forbidden.insert(n.addr, "itself");
        kp.insert(PeerInfo { peer_id: by1.peer_id, affinity: PeerAffinity::Allowed, address: vec![by1.addr.into()] });
        forbidden.insert(by1.addr, "a peer with Allowed affinity");
        kp.insert(PeerInfo { peer_id: by2.peer_id, affinity: PeerAffinity::Never, address: vec![by2.addr.into()] });
        forbidden.insert(by2.addr, "a peer with Never affinity");
        kp.insert(PeerInfo { peer_id: world::peer_id_of_key(&w.gen_key()), affinity: PeerAffinity::High, address: vec![] });
        let inserted_at = w.now();
        let out_windows: std::sync::Arc<std::sync::Mutex<Vec<(u64, u64)>>> = Default::default();
        let edit_task = edited.map(|e| {
            let (net, log, wins) = (n.net.clone(), w.log.clone(), out_windows.clone());
            let (pid, addrs) = high[e].clone();
            let mut r3 = StdRng::seed_from_u64(seed ^ 0xed17);
            tokio::spawn(async move {
                loop {
                    tokio::time::sleep(Duration::from_millis(r3.gen_range(i_ms..6 * i_ms + 4_000))).await;
                    let t_out = log.now();
                    if r3.gen_bool(0.5) {
                        let _ = net.known_peers().remove(&pid);
                    } else {
                        net.known_peers().insert(PeerInfo { peer_id: pid, affinity: PeerAffinity::Allowed, address: addrs.iter().map(|a| (*a).into()).collect() });
                    }
                    wins.lock().unwrap().push((t_out, u64::MAX));
                    // out of the table across at least one connectivity check
                    tokio::time::sleep(Duration::from_millis(r3.gen_range(i_ms + 1_100..4 * i_ms + 3_000))).await;
                    net.known_peers().insert(PeerInfo { peer_id: pid, affinity: PeerAffinity::High, address: addrs.iter().map(|a| (*a).into()).collect() });
                    wins.lock().unwrap().last_mut().unwrap().1 = log.now();
                }
            })
        });

        // connections the application dials itself also count as "being established": with a small
        // maximum an explicit dial to a silent address occupies a slot for the connect timeout
        let explicit_dead = bh_addr(idx, 950);
        let explicit = cap < 100 && rng.gen_bool(0.6);
        let explicit_task = if explicit {
            let net = n.net.clone();
            let mut r2 = StdRng::seed_from_u64(seed ^ 0xe);
            Some(tokio::spawn(async move {
                loop {
                    tokio::time::sleep(Duration::from_millis(r2.gen_range(0..3 * ct_ms))).await;
                    let _ = net.connect(explicit_dead).await;
                }
            }))
        } else {
            None
        };
        let span_s: u64 = rng.gen_range(120..1_800);
        tokio::time::sleep(Duration::from_secs(span_s)).await;
        let end = w.now();
        if let Some(t) = explicit_task {
            t.abort();
        }
        if let Some(t) = edit_task {
            t.abort();
        }
        let out_windows: Vec<(u64, u64)> = out_windows.lock().unwrap().clone();

        let tap = w.fabric.take_tap();
        let mut seen = HashMap::new();
        let attempts = attempts_from_tap(&tap, n.addr, &mut seen, 2 * ct_ms * 1_000);
        if std::env::var("VERIF_DEBUG").is_ok() {
            for r in tap.iter().filter(|r| r.src == n.addr) {
                eprintln!("{:>10}us -> {} long={:?} scid={} dcid={} len={}", r.t_us, r.dst, r.long_type, hex::encode(&r.scid), hex::encode(&r.dcid), r.len);
            }
        }
        let mut problems: Vec<String> = Vec::new();
        let mut per_peer: BTreeMap<usize, Vec<Attempt>> = BTreeMap::new();
        for a in &attempts {
            if a.dst == explicit_dead {
                continue; // the application's own dial
            } else if let Some(why) = forbidden.get(&a.dst) {
                problems.push(format!("background dial to {} ({})", a.dst, why));
            } else if let Some(h) = addr_owner.get(&a.dst) {
                per_peer.entry(*h).or_default().push(a.clone());
            } else {
                problems.push(format!("background dial to an address that is in no table entry: {}", a.dst));
            }
        }
        let ct = ct_ms * 1_000;
        let (iv, b, m) = (i_ms * 1_000, b_ms * 1_000, m_ms * 1_000);
        let jit = 1_000_000u64;
        let mut spacing_checked = 0u64;
        let mut rotation_checked = 0u64;
        for (h, atts) in &per_peer {
            let addrs = &high[*h].1;
            let is_edited = edited == Some(*h);
            if is_edited {
                for a in atts {
                    if let Some((t0, t1)) = out_windows.iter().find(|(t0, t1)| a.t > *t0 + 5_000 && a.t < *t1) {
                        problems.push(format!("peer #{h} was dialed at t={} us although its table entry had been removed or demoted at {t0} us (re-inserted as High at {t1} us)", a.t));
                        break;
                    }
                }
            }
            for (k, a) in atts.iter().enumerate() {
                // rotation: k-th consecutive failed attempt goes to address k mod n
                let want = addrs[k % addrs.len()];
                rotation_checked += 1;
                if a.dst != want {
                    problems.push(format!(
                        "peer #{h}: attempt {k} (after {k} consecutive failures) went to {} instead of address {} of {} ({})",
                        a.dst, k % addrs.len(), addrs.len(), want
                    ));
                    break;
                }
                if k >= 1 {
                    let delta = a.t - atts[k - 1].t;
                    let lower = m.min(k as u64 * b);
                    spacing_checked += 1;
                    if delta < lower {
                        problems.push(format!(
                            "peer #{h}: attempt {k} started {delta} us after attempt {} – sooner than min(max_backoff, {k} x backoff) = {lower} us",
                            k - 1
                        ));
                        break;
                    }
                    if cap >= 100 && !is_edited {
                        // keeps dialing: failure noticed <= ct + (I+J) after the attempt, next
                        // tick after the backoff <= (I+J) later
                        let upper = ct + (iv + jit) + lower + (iv + jit) + 50_000;
                        if delta > upper {
                            problems.push(format!(
                                "peer #{h}: attempt {k} came {delta} us after attempt {}, later than the bound {upper} us",
                                k - 1
                            ));
                            break;
                        }
                    }
                }
            }
            if cap >= 100 && !is_edited {
                // first attempt within one interval (+jitter) of becoming eligible
                if let Some(first) = atts.first() {
                    if first.t > inserted_at + iv + jit + 50_000 {
                        problems.push(format!("peer #{h}: first attempt only at {} us (eligible since {})", first.t, inserted_at));
                    }
                }
                // and the peer is still being dialed at the end of the run
                let k = atts.len() as u64;
                let next_due = atts.last().map(|a| a.t).unwrap_or(inserted_at) + ct + 2 * (iv + jit) + m.min(k * b) + 50_000;
                if next_due < end {
                    problems.push(format!("peer #{h}: dialing stopped after {k} attempts (next was due by {next_due} us, run ended at {end})"));
                }
            }
        }
        if cap >= 100 {
            for h in 0..n_high {
                if !per_peer.contains_key(&h) {
                    problems.push(format!("High-affinity peer #{h} with {} addresses was never dialed in {span_s} s", high[h].1.len()));
                }
            }
        }
        // cap: attempts in flight (each lasts exactly ct) never exceed the configured maximum
        let mut max_inflight = 0usize;
        let win = ct.saturating_sub(1_000);
        for (i, a) in attempts.iter().enumerate() {
            let infl = attempts[..=i].iter().filter(|x| x.t + win > a.t).count();
            max_inflight = max_inflight.max(infl);
        }
        if max_inflight > cap && !explicit {
            problems.push(format!("{max_inflight} background dials in flight at once, configured maximum is {cap}"));
        }
        // no background dial may START while the number of connections being established (explicit
        // dials included) is at the maximum
        let mut explicit_blocked_checks = 0u64;
        for (i, a) in attempts.iter().enumerate() {
            if a.dst == explicit_dead {
                continue;
            }
            let others = attempts[..i].iter().filter(|x| x.t + win > a.t && x.t < a.t).count();
            explicit_blocked_checks += 1;
            if others >= cap {
                problems.push(format!(
                    "a background dial to {} started at t={} us while {others} connections were already being established (maximum {cap}; explicit dials count)",
                    a.dst, a.t
                ));
                break;
            }
        }
        let sample = json!({
            "class": "all-unreachable", "scenario": idx, "seed": seed,
            "interval_ms": i_ms, "backoff_ms": b_ms, "max_backoff_ms": m_ms, "connect_timeout_ms": ct_ms, "cap": cap,
            "high_peers": high.iter().map(|(_, a)| a.len()).collect::<Vec<_>>(),
            "established_connections_to_non_high_parties": company.len(),
            "virtual_span_s": span_s, "attempts": attempts.len(), "max_in_flight": max_inflight,
            "first_attempts": attempts.iter().take(12).map(|a| format!("t={}ms -> {}", a.t / 1000, a.dst)).collect::<Vec<_>>(),
        });
        w.close();
        let res = if !problems.is_empty() {
            let mut wit = sample;
            wit["problems"] = json!(problems.iter().take(8).collect::<Vec<_>>());
            wit["all_attempts"] = json!(attempts.iter().map(|a| format!("t={}us -> {}", a.t, a.dst)).collect::<Vec<_>>());
            wit["raw_tap_from_node"] = json!(tap.iter().filter(|r| r.src == n.addr).map(|r| format!("t={}us -> {} long={:?} scid={} len={} {:?}", r.t_us, r.dst, r.long_type, hex::encode(&r.scid), r.len, r.fate)).collect::<Vec<_>>());
            ScenarioResult::violated(problems[0].clone(), wit)
        } else {
            ScenarioResult::held(format!(
                "A I={i_ms} cap={cap} peers={n_high} capped_backoff={} multiaddr={}",
                per_peer.values().any(|a| (a.len() as u64) * b > m),
                high.iter().any(|(_, a)| a.len() > 1)
            ))
            .with_sample(sample)
        };
        res.count("dial_attempts_observed", attempts.len() as u64)
            .count("spacing_checks", spacing_checked)
            .count("rotation_checks", rotation_checked)
            .count("virtual_seconds", span_s)
            .count("cap_limited_scenarios", (cap < 100) as u64)
            .count("cap_with_explicit_dials_scenarios", explicit as u64)
            .count("cap_start_checks", explicit_blocked_checks)
            .count("scenarios_with_non_high_connections", (!company.is_empty()) as u64)
            .count("table_edits_of_a_high_peer", out_windows.len() as u64)
    })
}

/// Class B: reachable High peers; bounded success, persistence after loss, recovery after k failures.
pub fn scenario_b(idx: usize, seed: u64) -> ScenarioResult {
    runner::sim_block_on(|| async move {
        let mut w = World::new(seed);
        let mut rng = StdRng::seed_from_u64(seed ^ 0xc13b);
        w.fabric.enable_tap(true);
        let lat = Duration::from_millis(rng.gen_range(1..10));
        w.fabric.set_default_link(LinkParams::fixed(lat));
        let i_ms: u64 = *[100u64, 500, 1_000, 5_000].get(rng.gen_range(0..4)).unwrap();
        let b_ms: u64 = rng.gen_range(1..=10) * 1_000;
        let m_ms: u64 = rng.gen_range(b_ms..=30_000);
        let ct_ms: u64 = rng.gen_range(200..=500);
        let mut c = NodeCfg::new(w.gen_key());
        c.config.connectivity_check_interval_ms = Some(i_ms);
        c.config.connection_backoff_ms = Some(b_ms);
        c.config.max_connection_backoff_ms = Some(m_ms);
        c.config.connect_timeout_ms = Some(ct_ms);
        let mut q = anemo::QuicConfig::default();
        q.max_idle_timeout_ms = Some(3_600_000);
        q.keep_alive_interval_ms = Some(10_000);
        c.config.quic = Some(q.clone());
        let n = w.start_node(c).unwrap();
        let np = rng.gen_range(1..=4usize);
        let mut peers = Vec::new();
        for _ in 0..np {
            let mut pc = NodeCfg::new(w.gen_key());
            pc.config.quic = Some(q.clone());
            peers.push(w.start_node(pc).unwrap());
        }
        let (iv, b, m, ct) = (i_ms * 1_000, b_ms * 1_000, m_ms * 1_000, ct_ms * 1_000);
        let jit = 1_000_000u64;
        let t_connect = lat.as_micros() as u64 * 8 + 100_000;
        let mut problems: Vec<String> = Vec::new();
        let mut trace: Vec<String> = Vec::new();
        let gap = 2 * ct_ms * 1_000;
        let mut all_attempts: Vec<Attempt> = Vec::new();
        let mut succ_checks = 0u64;
        let mut persist_checks = 0u64;
        let mut recover_checks = 0u64;
        let mut rotation_restarts = 0u64;

        // a helper that waits until N lists p or the deadline passes
        async fn wait_listed(net: &anemo::Network, p: PeerId, deadline_us: u64, log: &world::Log) -> bool {
            loop {
                if net.peers().contains(&p) {
                    return true;
                }
                if log.now() >= deadline_us {
                    return false;
                }
                tokio::time::sleep(Duration::from_millis(5)).await;
            }
        }
        // stagger the insertions
        tokio::time::sleep(Duration::from_millis(rng.gen_range(0..3_000))).await;
        // company: connections N holds to parties that are NOT High peers of its table - strangers
        // that dialed in, strangers N dialed explicitly, Allowed-affinity entries that dialed in.
        // They change nothing about who must be dialed in the background, and how soon.
        let mut strangers = Vec::new();
        let n_strangers = if rng.gen_bool(0.5) { rng.gen_range(1..=3usize) } else { 0 };
        for j in 0..n_strangers {
            let mut sc = NodeCfg::new(w.gen_key());
            sc.config.quic = Some(q.clone());
            let st = w.start_node(sc).unwrap();
            let ok = match j % 3 {
                0 => st.net.connect(n.addr).await.is_ok(),
                1 => n.net.connect(st.addr).await.is_ok(),
                _ => {
                    n.net.known_peers().insert(PeerInfo { peer_id: st.peer_id, affinity: PeerAffinity::Allowed, address: vec![] });
                    st.net.connect(n.addr).await.is_ok()
                }
            };
            if ok {
                strangers.push(st);
            }
        }
        if n_strangers > 0 {
            trace.push(format!("t={}ms {} connections to parties that are not High peers", w.now() / 1000, strangers.len()));
        }
        // some peers are listed with a dead address first: the first attempt fails, the second
        // (next address in rotation) succeeds; after a later loss the rotation starts at 0 again
        let two_addr: Vec<bool> = (0..np).map(|_| rng.gen_bool(0.4)).collect();
        let dead_of = |k: usize| bh_addr(idx, 500 + k);
        for (k, p) in peers.iter().enumerate() {
            n.net.known_peers().insert(PeerInfo {
                peer_id: p.peer_id,
                affinity: PeerAffinity::High,
                address: if two_addr[k] { vec![dead_of(k).into(), p.addr.into()] } else { vec![p.addr.into()] },
            });
        }
        let via_dead = ct + (iv + jit) + m.min(b) + (iv + jit);
        let e = w.now();
        for (k, p) in peers.iter().enumerate() {
            let dl = e + iv + jit + t_connect + if two_addr[k] { via_dead } else { 0 };
            succ_checks += 1;
            if !wait_listed(&n.net, p.peer_id, dl, &w.log).await {
                problems.push(format!(
                    "reachable High peer #{k} not connected within interval+1s+connect ({} us) of becoming eligible",
                    dl - e
                ));
            }
        }
        trace.push(format!("t={}ms all {np} reachable High peers connected", w.now() / 1000));
        let rounds = rng.gen_range(1..=4);
        for round in 0..rounds {
            if !problems.is_empty() {
                break;
            }
            tokio::time::sleep(Duration::from_millis(rng.gen_range(0..20_000))).await;
            let k = rng.gen_range(0..np);
            let p = &peers[k];
            if rng.gen_bool(0.5) {
                // persistence: the peer drops the connection; N must redial within I+1s and reconnect
                // the peer registers N one acknowledgement later than N registers the peer: make
                // sure the disconnect below really closes something
                let n_id = n.peer_id;
                if !world::wait_until(Duration::from_secs(2), Duration::from_millis(1), || p.net.peers().contains(&n_id)).await {
                    trace.push(format!("round {round}: peer #{k} does not list N, skipped"));
                    continue;
                }
                let ev_mark = w.log.lock().events.get(&n.idx).map(|v| v.len()).unwrap_or(0);
                let _ = p.net.disconnect(n.peer_id);
                // wait for N to notice
                let noticed = world::wait_until(Duration::from_secs(5), Duration::from_millis(1), || {
                    w.log.lock().events.get(&n.idx).map(|v| v[ev_mark..].iter().any(|e| matches!(&e.ev, PeerEvent::LostPeer(q, _) if *q == p.peer_id))).unwrap_or(false)
                }).await;
                if !noticed {
                    problems.push("N never noticed the loss of a connection closed by the peer".into());
                    break;
                }
                let lost_at = w.now();
                let dl = lost_at + iv + jit + t_connect + if two_addr[k] { via_dead } else { 0 };
                persist_checks += 1;
                let ok = wait_listed(&n.net, p.peer_id, dl, &w.log).await;
                if two_addr[k] {
                    // the failures before the last success do not count any more: rotation restarts
                    let tap = w.fabric.tap_since(0);
                    let mut sx = HashMap::new();
                    let first_after = attempts_from_tap(&tap, n.addr, &mut sx, gap)
                        .into_iter()
                        .find(|a| a.t + 1_000 >= lost_at && (a.dst == p.addr || a.dst == dead_of(k)));
                    rotation_restarts += 1;
                    if let Some(a) = first_after {
                        if a.dst != dead_of(k) {
                            problems.push(format!(
                                "peer #{k} (addresses [dead, live]): after its connection was lost the first new attempt went to address 1, not to the first address (the consecutive-failure count was not reset by the success)"
                            ));
                        }
                    }
                }
                trace.push(format!("t={}ms round {round}: peer #{k} closed; reconnected={ok}", w.now() / 1000));
                if !ok {
                    problems.push(format!(
                        "connection to High peer #{k} lost at {lost_at} us but not re-established within interval+1s+connect"
                    ));
                }
            } else if !two_addr[k] {
                // recovery after k failures: black-hole the peer for a while, drop the connection
                w.fabric.isolate(p.addr);
                let _ = n.net.disconnect(p.peer_id);
                let down = Duration::from_millis(rng.gen_range(1_000..90_000));
                tokio::time::sleep(down).await;
                // flip to reachable only while no attempt towards it is in flight
                let mut guard = 0;
                loop {
                    let tap = w.fabric.tap_since(0);
                    let mut s3 = HashMap::new();
                    let last = attempts_from_tap(&tap, n.addr, &mut s3, gap).into_iter().filter(|a| a.dst == p.addr).last();
                    let in_flight = last.map(|a| a.t + ct + 20_000 > w.now()).unwrap_or(false);
                    if !in_flight || guard > 200 {
                        break;
                    }
                    guard += 1;
                    tokio::time::sleep(Duration::from_millis(10)).await;
                }
                // consecutive failures so far = attempts towards p since its last success
                let tap = w.fabric.tap_since(0);
                let mut s4 = HashMap::new();
                let all: Vec<Attempt> = attempts_from_tap(&tap, n.addr, &mut s4, gap).into_iter().filter(|a| a.dst == p.addr).collect();
                let isolated_since = w.now().saturating_sub(down.as_micros() as u64 + 2_000_000);
                let kf = all.iter().filter(|a| a.t >= isolated_since).count() as u64;
                w.fabric.unisolate(p.addr);
                let up = w.now();
                let bound = m.min(kf * b) + 2 * (iv + jit) + t_connect;
                recover_checks += 1;
                let ok = wait_listed(&n.net, p.peer_id, up + bound, &w.log).await;
                trace.push(format!(
                    "t={}ms round {round}: peer #{k} unreachable for {} ms, {kf} failed attempts, reachable again at {} ms, reconnected={ok} after {} ms (bound {} ms)",
                    w.now() / 1000, down.as_millis(), up / 1000, (w.now() - up) / 1000, bound / 1000
                ));
                if !ok {
                    problems.push(format!(
                        "High peer #{k} became reachable after {kf} consecutive failures but was not connected within min(max_backoff, k x backoff) + 2 intervals + connect = {bound} us"
                    ));
                }
            }
        }
        // who: never dial a connected peer or one being dialed: consecutive attempts to one peer
        // are either separated by a LostPeer (after success) or by >= connect/failure handling
        let tap = w.fabric.take_tap();
        let mut s5 = HashMap::new();
        all_attempts.extend(attempts_from_tap(&tap, n.addr, &mut s5, gap));
        {
            let g = w.log.lock();
            let evs = g.events.get(&n.idx).cloned().unwrap_or_default();
            for p in &peers {
                // connected intervals of p at N
                let mut connected_since: Option<u64> = None;
                let mut intervals: Vec<(u64, u64)> = Vec::new();
                for e in &evs {
                    match &e.ev {
                        PeerEvent::NewPeer(q) if *q == p.peer_id => connected_since = Some(e.t),
                        PeerEvent::LostPeer(q, _) if *q == p.peer_id => {
                            if let Some(s) = connected_since.take() {
                                intervals.push((s, e.t));
                            }
                        }
                        _ => {}
                    }
                }
                if let Some(s) = connected_since {
                    intervals.push((s, u64::MAX));
                }
                for a in all_attempts.iter().filter(|a| a.dst == p.addr) {
                    if intervals.iter().any(|(s, e)| a.t > *s + 1_000 && a.t < *e) {
                        problems.push(format!("background dial to an already connected peer at t={} us", a.t));
                    }
                }
            }
            for a in &all_attempts {
                if a.dst == n.addr {
                    problems.push("background dial to itself".into());
                }
            }
        }
        let sample = json!({
            "class": "reachable", "scenario": idx, "seed": seed,
            "interval_ms": i_ms, "backoff_ms": b_ms, "max_backoff_ms": m_ms, "connect_timeout_ms": ct_ms,
            "peers": np, "attempts": all_attempts.len(), "history": trace,
        });
        w.close();
        let res = if !problems.is_empty() {
            let mut wit = sample;
            wit["problems"] = json!(problems);
            ScenarioResult::violated(problems[0].clone(), wit)
        } else {
            ScenarioResult::held(format!(
                "B I={i_ms} peers={np} persist={} recover={}",
                persist_checks.min(2), recover_checks.min(2)
            ))
            .with_sample(sample)
        };
        res.count("dial_attempts_observed", all_attempts.len() as u64)
            .count("bounded_success_checks", succ_checks)
            .count("persistence_checks", persist_checks)
            .count("recovery_after_failures_checks", recover_checks)
            .count("rotation_restart_checks", rotation_restarts)
            .count("scenarios_with_non_high_connections", (!strangers.is_empty()) as u64)
    })
}

pub fn run(ctx: &Ctx) -> i32 {
    let tier = ctx.tier;
    let cfg = RunCfg {
        property: "C13",
        tier,
        seed: ctx.seed,
        scenarios: tier.pick(6_000, 200_000),
        threads: super::threads(),
        watchdog: Duration::from_secs(180),
        budget: Duration::from_secs(tier.pick(90, 900)),
        only: ctx.only,
    };
    let summary = runner::run_scenarios(&cfg, |i, s| {
        if i % 2 == 0 {
            scenario_a(i, s)
        } else {
            scenario_b(i, s)
        }
    });
    runner::finish(Report {
        property: "C13",
        tier,
        seed: ctx.seed,
        level: "exploration",
        rule: "two scenario classes on virtual time (2-30 min spans). A: a node whose High peers (1-6, 1-4 addresses each) are all black-holed plus never-dial entries (itself, Allowed, Never, empty address list); dial attempts are read off the fabric tap (first Initial per source connection id) and checked for who/rotation (k-th consecutive failure -> address k mod n)/spacing lower bound min(max,k*step)/in-flight cap/keeps-dialing upper bounds. B: reachable High peers; bounded success after insertion, re-dial after loss within interval+1s, recovery after k failures within min(max,k*step)+2 intervals+connect, no dial while connected. distinct by (class, interval, cap, table shape / which clauses were exercised) In both classes the node may hold 'company': established connections to parties outside its High table (strangers that dialed in, strangers it dialed explicitly, Allowed entries), which must change nothing. In 35% of the class-A scenarios one more High peer has its table entry edited while the node runs (removed or demoted to Allowed for longer than a connectivity check, then re-inserted as High): no dial while it is out, rotation and the back-off lower bound continue across the edit, the keeps-dialing upper bounds are not applied to it.".into(),
        assumptions: vec![
            "liveness clauses decided as the bounded-progress bounds the statement gives, in virtual time".into(),
            "tick jitter (<1 s, random) is not controlled; bounds include it".into(),
        ],
        summary,
        extra: Default::default(),
        exhaustive: None,
        min_signatures: 10,
        required_counters: vec!["dial_attempts_observed", "spacing_checks", "rotation_checks", "bounded_success_checks", "persistence_checks", "recovery_after_failures_checks", "rotation_restart_checks", "cap_limited_scenarios", "cap_with_explicit_dials_scenarios"],
    })
}
