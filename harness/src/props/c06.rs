//! C06 – a connected hostile peer cannot crash or stall the network.

use super::Ctx;
use crate::{
    adversary::{Adversary, CertKey},
    fabric::LinkParams,
    refmodel::wire as refwire,
    runner::{self, Report, RunCfg, ScenarioResult},
    world::{self, gen_bytes, hash_bytes, peer_id_of_key, NodeCfg, RpcSpec, Script, World, H_ID, H_SCRIPT},
};
use rand::{rngs::StdRng, seq::SliceRandom, Rng, SeedableRng};
use serde_json::json;
use std::{
    collections::BTreeMap,
    sync::{
        atomic::{AtomicBool, AtomicU64, Ordering},
        Arc,
    },
    time::Duration,
};

pub const ODD_ROUTES: [&str; 14] = [
    "", "/", "*", ":", "{}", "/*", "/:x", "/a//b", "/%2F", "/..", "/\0", "no-slash", "/é/ü/日本", "//",
];

/// Text a hostile peer may put where the library expects a string: any length, any mix of 1-4 byte
/// UTF-8 sequences, with a multi-byte character placed across every byte offset up to 300 as `sweep`
/// advances (so that any byte-offset slicing or fixed-size buffering of it is exercised).
pub fn hostile_text(rng: &mut StdRng, sweep: usize, lead: &str) -> String {
    const WIDE: [&str; 6] = ["é", "ü", "日", "本", "😀", "\u{10FFFF}"];
    let mut s = String::from(lead);
    let ascii = sweep % 300;
    while s.len() < ascii {
        s.push((b'a' + (s.len() % 26) as u8) as char);
    }
    s.push_str(WIDE[sweep % WIDE.len()]);
    for _ in 0..rng.gen_range(0..40) {
        if rng.gen_bool(0.5) {
            s.push_str(WIDE.choose(rng).unwrap());
        } else {
            s.push(*['/', 'x', '*', ':', '%', ' ', '\0', '{', '.'].choose(rng).unwrap());
        }
    }
    if rng.gen_bool(0.1) {
        for _ in 0..rng.gen_range(100..2000) {
            s.push_str(WIDE.choose(rng).unwrap());
        }
    }
    s
}

fn valid_request(id: u64, rng: &mut StdRng, resp_len: u32) -> (Vec<u8>, Script) {
    valid_request_sweep(id, rng, resp_len, None)
}

fn valid_request_sweep(id: u64, rng: &mut StdRng, resp_len: u32, sweep: Option<usize>) -> (Vec<u8>, Script) {
    let script = Script { delay_us: rng.gen_range(0..3) * 10_000, resp_len, status: 200, nhdr: 1, seed: rng.gen::<u64>() | 1 };
    let mut headers = vec![(H_ID.to_owned(), id.to_string()), (H_SCRIPT.to_owned(), script.encode())];
    if rng.gen_bool(0.3) {
        // deadlines a hostile peer may announce: unparsable, absurdly small, huge
        headers.push(("timeout".into(), ["0x", "-5", "99999999999999999999999", "abc", "", "0", "1", "50", "1000", "18446744073709551615", "100000000000"].choose(rng).unwrap().to_string()));
    }
    let mut route = if rng.gen_bool(0.3) { ODD_ROUTES.choose(rng).unwrap().to_string() } else { "/probe".to_owned() };
    if let Some(sw) = sweep {
        if rng.gen_bool(0.6) {
            let lead = if rng.gen_bool(0.7) { "/" } else { "" };
            route = hostile_text(rng, sw, lead);
        }
        if rng.gen_bool(0.3) {
            headers.push((hostile_text(rng, sw / 3, "x-"), hostile_text(rng, sw + 1, "")));
        }
    }
    let body = gen_bytes(id, rng.gen_range(0..3000));
    (refwire::encode_request(&route, &headers, &body), script)
}

#[derive(Default)]
struct AdvLog {
    /// every byte string written to a request stream that was then finished
    finished_strings: Vec<Vec<u8>>,
    actions: BTreeMap<&'static str, u64>,
}

pub fn scenario(idx: usize, seed: u64, steps: usize) -> ScenarioResult {
    let _ = runner::take_panics();
    let res = runner::sim_block_on(|| async move {
        let mut w = World::new(seed);
        let mut rng = StdRng::seed_from_u64(seed ^ 0xc06);
        let loss = if rng.gen_bool(0.25) { rng.gen_range(0.01..0.1) } else { 0.0 };
        let lat = Duration::from_millis(rng.gen_range(1..8));
        w.fabric.set_default_link(LinkParams { latency_min: lat, latency_max: lat, loss: 0.0, dup: 0.0 });
        let max_frame = if rng.gen_bool(0.5) { Some(*[1_000usize, 65_536, 1 << 20].choose(&mut rng).unwrap()) } else { None };
        let mk = |w: &mut World| {
            let mut c = NodeCfg::new(w.gen_key());
            c.config.max_frame_size = max_frame;
            let mut q = anemo::QuicConfig::default();
            q.max_idle_timeout_ms = Some(120_000);
            q.keep_alive_interval_ms = Some(5_000);
            c.config.quic = Some(q);
            c
        };
        let cv = mk(&mut w);
        let v = w.start_node(cv).unwrap();
        let ch = mk(&mut w);
        let h = w.start_node(ch).unwrap();
        if v.net.connect(h.addr).await.is_err() {
            w.close();
            return ScenarioResult::inconclusive("setup dial failed");
        }
        let ky = w.gen_key();
        let y = peer_id_of_key(&ky);
        let adv_addr: std::net::SocketAddr = format!("10.73.{}.{}:4433", (idx / 250) % 250, 1 + idx % 250).parse().unwrap();
        w.registry.insert(adv_addr, world::Party { peer_id: y, key: ky, honest: false });
        let adv = Adversary::new(&w.fabric, adv_addr, None);
        let ident = CertKey::honest(ky, "verif");
        let mut conn = match adv.dial(v.addr, "verif", Some(ident.clone()), Duration::from_secs(5)).await {
            Ok(c) => c,
            Err(_) => {
                w.close();
                return ScenarioResult::inconclusive("adversary was not admitted");
            }
        };
        tokio::time::sleep(Duration::from_millis(200)).await;
        // baseline latency of an honest rpc
        let t0 = w.now();
        let (_, r) = world::rpc(&w.log, &v.net, v.idx, h.peer_id, &RpcSpec::simple(100, 1)).await;
        if r.is_err() {
            w.close();
            return ScenarioResult::inconclusive("baseline rpc failed");
        }
        let baseline = (w.now() - t0).max(1_000);
        w.fabric.set_default_link(LinkParams { latency_min: lat, latency_max: lat, loss, dup: 0.0 });
        let honest_bound = 20 * baseline + if loss > 0.0 { 5_000_000 } else { 100_000 };

        // honest traffic in the background, both directions
        let stop = Arc::new(AtomicBool::new(false));
        let slow = Arc::new(AtomicU64::new(0));
        let honest_fail: Arc<std::sync::Mutex<Vec<String>>> = Default::default();
        let honest_n = Arc::new(AtomicU64::new(0));
        let honest_cap = max_frame.unwrap_or(1 << 20).min(4_000).max(2) / 2;
        let bg = {
            let (log, vn, hn, vi, hi, vp, hp) = (w.log.clone(), v.net.clone(), h.net.clone(), v.idx, h.idx, v.peer_id, h.peer_id);
            let (stop, slow, honest_fail, honest_n) = (stop.clone(), slow.clone(), honest_fail.clone(), honest_n.clone());
            tokio::spawn(async move {
                let mut k = 0u64;
                while !stop.load(Ordering::SeqCst) {
                    k += 1;
                    let cap = honest_cap as u64;
                    let spec = RpcSpec::simple(((k % 7 * 300) % cap) as usize, k).with_script(Script { delay_us: 0, resp_len: ((k % 5 * 500) % cap) as u32, status: 200, nhdr: 1, seed: k | 1 });
                    let t = log.now();
                    let r = if k % 2 == 0 {
                        tokio::time::timeout(Duration::from_secs(60), world::rpc(&log, &vn, vi, hp, &spec)).await
                    } else {
                        tokio::time::timeout(Duration::from_secs(60), world::rpc(&log, &hn, hi, vp, &spec)).await
                    };
                    let dt = log.now() - t;
                    honest_n.fetch_add(1, Ordering::SeqCst);
                    match r {
                        Ok((_, Ok(_))) => {
                            slow.fetch_max(dt, Ordering::SeqCst);
                        }
                        Ok((id, Err(e))) => honest_fail.lock().unwrap().push(format!("honest rpc {id} failed during the attack: {e:#}")),
                        Err(_) => honest_fail.lock().unwrap().push("honest rpc hangs during the attack".into()),
                    }
                    tokio::time::sleep(Duration::from_millis(20)).await;
                }
            })
        };

        let mut alog = AdvLog::default();
        let mut held_open: Vec<(quinn::SendStream, quinn::RecvStream)> = Vec::new();
        let mut problems: Vec<String> = Vec::new();
        let mut probes_ok = 0u64;
        let mut trace: Vec<String> = Vec::new();
        let trunc_base = idx * 3;
        let mut closed_by_adversary = false;
        for step in 0..steps {
            if !problems.is_empty() {
                break;
            }
            if v.net.is_closed() {
                problems.push(format!("victim network reports closed after adversary action '{}'", trace.last().cloned().unwrap_or_default()));
                break;
            }
            if conn.close_reason().is_some() {
                // reconnect (abrupt closes are part of the programme)
                match adv.dial(v.addr, "verif", Some(ident.clone()), Duration::from_secs(5)).await {
                    Ok(c) => {
                        conn = c;
                        held_open.clear();
                        closed_by_adversary = false;
                        *alog.actions.entry("reconnect").or_default() += 1;
                    }
                    Err(e) => {
                        if !closed_by_adversary {
                            problems.push(format!("victim dropped the adversary's connection and refuses a reconnect: {e}"));
                        }
                        break;
                    }
                }
            }
            let kind = rng.gen_range(0..100);
            let id = w.next_id();
            let act: &'static str;
            // stream credit comes back only after the victim has processed the adversary's earlier
            // resets (retransmitted under loss): be patient before calling it a leak
            let patience = if held_open.len() < 40 { 30 } else { 2 };
            let open = tokio::time::timeout(Duration::from_secs(patience), conn.open_bi()).await;
            let (mut tx, mut rx) = match open {
                Ok(Ok(s)) => s,
                Ok(Err(_)) => continue,
                Err(_) => {
                    // stream credit exhausted by streams the adversary itself holds open
                    // (streams just reset/finished are credited back only after the victim has
                    // processed them, so only a large shortfall is suspicious)
                    if held_open.len() < 40 {
                        problems.push(format!("adversary holds only {} open streams but cannot open another one", held_open.len()));
                    }
                    held_open.clear();
                    continue;
                }
            };
            if kind < 10 {
                act = "random-bytes";
                let n = rng.gen_range(0..2000);
                let b: Vec<u8> = (0..n).map(|_| rng.gen()).collect();
                let _ = tx.write_all(&b).await;
                let _ = tx.finish();
                alog.finished_strings.push(b);
            } else if kind < 25 {
                act = "mutated-valid";
                let (mut b, _) = valid_request(id, &mut rng, 100);
                for _ in 0..rng.gen_range(1..=8) {
                    let i = rng.gen_range(0..b.len());
                    b[i] = rng.gen();
                }
                let _ = tx.write_all(&b).await;
                let _ = tx.finish();
                alog.finished_strings.push(b);
            } else if kind < 45 {
                let (b, _) = valid_request(id, &mut rng, 100);
                let cut = (trunc_base + step * 5) % b.len();
                let b = b[..cut].to_vec();
                let _ = tx.write_all(&b).await;
                match rng.gen_range(0..3) {
                    0 => {
                        act = "truncated+finish";
                        let _ = tx.finish();
                        alog.finished_strings.push(b);
                    }
                    1 => {
                        act = "truncated+reset";
                        let _ = tx.reset(7u32.into());
                    }
                    _ => {
                        act = "truncated+left-open";
                        held_open.push((tx, rx));
                        *alog.actions.entry(act).or_default() += 1;
                        trace.push(act.into());
                        continue;
                    }
                }
            } else if kind < 55 {
                act = "length-prefix";
                let mx = max_frame.unwrap_or(8 << 20) as u64;
                let n: u32 = *[0u64, 1, mx.saturating_sub(1), mx, mx + 1, 1 << 31, u32::MAX as u64].choose(&mut rng).unwrap() as u32;
                let mut b = b"anemo\x00\x01\x00".to_vec();
                b.extend_from_slice(&n.to_be_bytes());
                let extra = *[0usize, 1, 100, 5_000].choose(&mut rng).unwrap();
                b.extend_from_slice(&gen_bytes(id, extra));
                let _ = tx.write_all(&b).await;
                let _ = tx.finish();
                alog.finished_strings.push(b);
            } else if kind < 62 {
                act = "bincode-bomb";
                // header frame announcing 2^60 map entries / string length
                let mut hdr = Vec::new();
                if rng.gen_bool(0.5) {
                    hdr.extend_from_slice(&(1u64 << 60).to_le_bytes());
                } else {
                    hdr.extend_from_slice(&2u64.to_le_bytes());
                    hdr.extend_from_slice(b"/x");
                    hdr.extend_from_slice(&(1u64 << 60).to_le_bytes());
                }
                let b = refwire::frame(1, &hdr, b"body");
                let _ = tx.write_all(&b).await;
                let _ = tx.finish();
                alog.finished_strings.push(b);
            } else if kind < 70 {
                // a complete, well-formed request (hostile route/header text) whose exchange the peer
                // then abandons at a seeded point: before the handler starts, while it runs (script
                // delay 0-20 ms), or while the response is written
                let rl = *[0u32, 100, 200_000].choose(&mut rng).unwrap();
                let (b, _) = valid_request_sweep(id, &mut rng, rl, Some(idx * 7 + step));
                let _ = tx.write_all(&b).await;
                let reset_instead = rng.gen_bool(0.25);
                // complete either way: the victim may legitimately serve it
                alog.finished_strings.push(b);
                if !reset_instead {
                    let _ = tx.finish();
                }
                if rng.gen_bool(0.7) {
                    tokio::time::sleep(lat * rng.gen_range(0..4) + Duration::from_millis(rng.gen_range(0..25))).await;
                }
                if reset_instead {
                    act = "valid-then-reset";
                    let _ = tx.reset(5u32.into());
                    if rng.gen_bool(0.5) {
                        let _ = rx.stop(3u32.into());
                    }
                } else {
                    act = "stop-response";
                    let _ = rx.stop(3u32.into());
                }
            } else if kind < 72 {
                act = "trickle-past-own-deadline";
                let script = Script { delay_us: 0, resp_len: 10, status: 200, nhdr: 0, seed: 3 };
                let headers = vec![(H_ID.to_owned(), id.to_string()), (H_SCRIPT.to_owned(), script.encode()), ("timeout".into(), (rng.gen_range(1..5) * 1_000_000u64).to_string())];
                let b = refwire::encode_request("/slow", &headers, &gen_bytes(id, 200));
                let cut = rng.gen_range(1..b.len());
                let _ = tx.write_all(&b[..cut]).await;
                tokio::time::sleep(Duration::from_millis(rng.gen_range(5..30))).await;
                let _ = tx.write_all(&b[cut..]).await;
                let _ = tx.finish();
                alog.finished_strings.push(b);
            } else if kind < 75 {
                act = "open-and-never-write";
                held_open.push((tx, rx));
                *alog.actions.entry(act).or_default() += 1;
                trace.push(act.into());
                continue;
            } else if kind < 79 {
                act = "stream-flood";
                drop((tx, rx));
                let n = *[100usize, 101, 300].choose(&mut rng).unwrap();
                for _ in 0..n {
                    match tokio::time::timeout(Duration::from_millis(200), conn.open_bi()).await {
                        Ok(Ok((mut t, r))) => {
                            let _ = t.write_all(b"anemo").await;
                            held_open.push((t, r));
                        }
                        _ => break,
                    }
                }
                *alog.actions.entry(act).or_default() += 1;
                trace.push(format!("{act} held={}", held_open.len()));
                // release them again abruptly
                if rng.gen_bool(0.7) {
                    for (mut t, _r) in held_open.drain(..) {
                        let _ = t.reset(1u32.into());
                    }
                    tokio::time::sleep(lat * 6).await;
                }
                continue;
            } else if kind < 85 {
                act = "uni-streams-and-datagrams";
                drop((tx, rx));
                for _ in 0..rng.gen_range(1..5) {
                    if let Ok(Ok(mut u)) = tokio::time::timeout(Duration::from_millis(500), conn.open_uni()).await {
                        let _ = u.write_all(&gen_bytes(id, rng.gen_range(0..5000))).await;
                        let _ = u.finish();
                    }
                }
                for n in [0usize, 1, 100, 1_000, 1_150] {
                    let _ = conn.send_datagram(gen_bytes(id, n));
                }
                *alog.actions.entry(act).or_default() += 1;
                trace.push(act.into());
                continue;
            } else if kind < 89 {
                act = "abrupt-close-with-inflight";
                let (b, _) = valid_request(id, &mut rng, 500_000);
                let _ = tx.write_all(&b).await;
                let _ = tx.finish();
                // no entry in finished_strings: whether it is served is irrelevant once we close
                if rng.gen_bool(0.5) {
                    tokio::time::sleep(lat).await;
                }
                conn.close(9u32.into(), b"abrupt");
                closed_by_adversary = true;
                alog.finished_strings.push(b);
            } else {
                // well-formed probe on a fresh stream: must be served correctly
                act = "well-formed-probe";
                let resp_len = rng.gen_range(0..4000u32);
                let (b, script) = valid_request_sweep(id, &mut rng, resp_len, Some(idx * 7 + step));
                let _ = tx.write_all(&b).await;
                let _ = tx.finish();
                alog.finished_strings.push(b.clone());
                let parsed = refwire::parse_request(&b, usize::MAX, false, false).unwrap();
                let short_deadline = parsed.headers.iter().any(|(k, v)| k == "timeout" && v.parse::<u64>().map(|n| n < 10_000_000_000).unwrap_or(false));
                let timeout_hdr_zero = false;
                let _ = timeout_hdr_zero;
                let held = held_open.len();
                // under injected loss a single stream may sit through several retransmission
                // back-offs; "stops serving" is judged with a long virtual-time horizon there
                let probe_wait = if loss > 0.0 { 60_000_000 } else { honest_bound.max(2_000_000) };
                let resp = tokio::time::timeout(Duration::from_micros(probe_wait), rx.read_to_end(1 << 22)).await;
                let fits = max_frame.map(|m| parsed.body.len() <= m && refwire::request_header(&parsed.route, &parsed.headers).len() <= m && (resp_len as usize) <= m).unwrap_or(true);
                if held < 50 && conn.close_reason().is_none() && fits && !short_deadline {
                    match resp {
                        Ok(Ok(bytes)) => match refwire::parse_response(&bytes, usize::MAX, false, false) {
                            Ok(r) => {
                                let want = gen_bytes(script.seed ^ id, resp_len as usize);
                                let vid = r.headers.iter().find(|(k, _)| k == H_ID).map(|(_, v)| v.clone());
                                if r.status != 200 || r.body != want.as_ref() || vid != Some(id.to_string()) {
                                    problems.push(format!(
                                        "well-formed request on a fresh stream of the hostile connection got a wrong response: status {} body {}B#{:x} vid {:?} (expected 200, {}B#{:x}, {id})",
                                        r.status, r.body.len(), hash_bytes(&r.body), vid, want.len(), hash_bytes(&want)
                                    ));
                                } else {
                                    probes_ok += 1;
                                }
                            }
                            Err(e) => problems.push(format!("response to a well-formed request does not parse: {e} ({} bytes)", bytes.len())),
                        },
                        Ok(Err(e)) => {
                            if conn.close_reason().is_none() {
                                problems.push(format!("well-formed request on a fresh stream was not answered: {e} (after '{}')", trace.last().cloned().unwrap_or_default()));
                            }
                        }
                        Err(_) => problems.push(format!("well-formed request on a fresh stream got no answer in time (after '{}', {held} streams held open)", trace.last().cloned().unwrap_or_default())),
                    }
                }
            }
            *alog.actions.entry(act).or_default() += 1;
            trace.push(act.into());
            if rng.gen_bool(0.5) {
                tokio::time::sleep(lat * rng.gen_range(0..6)).await;
            }
        }
        // end of the attack
        tokio::time::sleep(Duration::from_millis(300)).await;
        stop.store(true, Ordering::SeqCst);
        let _ = tokio::time::timeout(Duration::from_secs(120), bg).await;
        conn.close(0u32.into(), b"done");
        adv.close();
        tokio::time::sleep(Duration::from_millis(500)).await;
        w.fabric.set_default_link(LinkParams { latency_min: lat, latency_max: lat, loss: 0.0, dup: 0.0 });
        if v.net.is_closed() {
            problems.push("victim network reports closed after the attack".into());
        }
        for (a, b, p) in [(&v, &h, h.peer_id), (&h, &v, v.peer_id)] {
            let t = w.now();
            let r = tokio::time::timeout(Duration::from_secs(60), world::rpc(&w.log, &a.net, a.idx, p, &RpcSpec::simple(50, 9))).await;
            match r {
                Ok((_, Ok(_))) => {
                    if w.now() - t > honest_bound {
                        problems.push(format!("honest rpc after the attack took {} us (baseline {baseline})", w.now() - t));
                    }
                }
                Ok((_, Err(e))) => problems.push(format!("honest rpc {}->{} after the attack fails: {e:#}", a.idx, b.idx)),
                Err(_) => problems.push("honest rpc after the attack hangs".into()),
            }
        }
        problems.extend(honest_fail.lock().unwrap().iter().take(3).cloned());
        let worst = slow.load(Ordering::SeqCst);
        if worst > honest_bound {
            problems.push(format!("an honest rpc took {worst} us during the attack; baseline {baseline} us, bound {honest_bound}"));
        }
        // malformed requests must not reach the handler; what reaches it must be a valid request
        let mut served_from_adversary = 0u64;
        {
            let mut g = w.log.lock();
            // requests written by the adversary (possibly with a mutated id header that collides with
            // an honest id) are judged separately below: take them out of the honest history
            let adv_starts: Vec<world::StartRec> = g.starts.iter().filter(|s| s.from_full == Some(y.0)).cloned().collect();
            g.starts.retain(|s| s.from_full != Some(y.0));
            let mut st = world::DeliveryStats::default();
            let dv = world::check_delivery(&g, &mut st);
            for p in dv.iter() {
                problems.push(format!("honest traffic: {p}"));
            }
            g.starts.extend(adv_starts);
            let valid: Vec<refwire::ParsedRequest> = alog
                .finished_strings
                .iter()
                .filter_map(|b| refwire::parse_request(b, max_frame.unwrap_or(8 << 20), true, false).ok())
                .collect();
            for s in g.starts.iter().filter(|s| s.from_full == Some(y.0)) {
                served_from_adversary += 1;
                let ok = valid.iter().any(|p| {
                    p.route == s.route
                        && p.body.len() == s.body_len
                        && hash_bytes(&p.body) == s.body_hash
                        && p.headers.iter().cloned().collect::<std::collections::BTreeMap<_, _>>() == s.headers
                });
                if !ok {
                    problems.push(format!(
                        "the handler was started for a request (route {:?}, {} headers, {} B body) that is not a complete valid request the adversary sent",
                        s.route.chars().take(30).collect::<String>(), s.headers.len(), s.body_len
                    ));
                }
            }
        }
        let sample = json!({
            "scenario": idx, "seed": seed, "max_frame": max_frame, "loss": loss, "baseline_rpc_us": baseline,
            "adversary_actions": alog.actions, "honest_rpcs_during_attack": honest_n.load(Ordering::SeqCst),
            "slowest_honest_rpc_us": worst, "well_formed_probes_ok": probes_ok,
            "requests_from_adversary_served": served_from_adversary,
            "first_actions": trace.iter().take(25).collect::<Vec<_>>(),
        });
        w.close();
        let n_actions: u64 = alog.actions.values().sum();
        let res = if !problems.is_empty() {
            let mut wit = sample;
            wit["problems"] = json!(problems);
            ScenarioResult::violated(problems[0].clone(), wit)
        } else {
            let kinds: Vec<&str> = alog.actions.keys().map(|k| &k[..k.len().min(6)]).collect();
            ScenarioResult::held(format!("mf={max_frame:?} lossy={} kinds={}", loss > 0.0, kinds.len()))
                .with_sample(sample)
        };
        let mut res = res
            .count("adversary_actions", n_actions)
            .count("well_formed_probes_ok", probes_ok)
            .count("honest_rpcs_during_attack", honest_n.load(Ordering::SeqCst))
            .count("requests_from_adversary_served", served_from_adversary);
        for (k, v) in &alog.actions {
            res.add(&format!("adv:{k}"), *v);
        }
        res
    });
    // panics anywhere on this scenario's thread (all tasks of the scenario run on it)
    let panics = runner::take_panics();
    if !panics.is_empty() {
        let first = &panics[0];
        let mut r = ScenarioResult::violated(
            format!("panic while a hostile peer was connected: {} at {}", first.message, runner::norm_location(&first.location)),
            json!({"scenario": idx, "seed": seed, "panics": panics}),
        );
        r.counters = res.counters;
        return r;
    }
    res
}

pub fn run(ctx: &Ctx) -> i32 {
    let tier = ctx.tier;
    let cfg = RunCfg {
        property: "C06",
        tier,
        seed: ctx.seed,
        scenarios: tier.pick(6_000, 200_000),
        threads: super::threads(),
        watchdog: Duration::from_secs(tier.pick(90, 300)),
        budget: Duration::from_secs(tier.pick(120, 1200)),
        only: ctx.only,
    };
    let steps = tier.pick(40, 120);
    // "cannot stall the network": a scenario thread diagnosed as spinning inside the library is a
    // verdict for this property (never the watchdog by itself)
    runner::set_spin_is_violation(true);
    let summary = runner::run_scenarios(&cfg, move |i, s| scenario(i, s, steps));
    runner::finish(Report {
        property: "C06",
        tier,
        seed: ctx.seed,
        level: "exploration",
        rule: "scenario = victim + honest bystander (real Networks) and an admitted adversary endpoint on the fabric; the adversary runs a seeded programme of 40 (thorough 120) actions from {random bytes, valid request mutated at 1-8 positions, valid request truncated at a swept offset then finish/reset/left open, length prefixes 0/1/max-1/max/max+1/2^31/2^32-1, bincode headers announcing 2^60 entries, complete request with hostile route/header text (1-4 byte UTF-8 sequences swept across byte offsets 0..300, up to 8 kB) then stop the response stream or reset the request stream before/while/after the handler runs, open and never write, 100/101/300 streams, uni streams + datagrams, abrupt close with requests in flight + reconnect, well-formed probe} concurrently with honest RPCs in both directions; monitors: process-wide panic hook, is_closed(), C02 oracle + latency bound (20x baseline) on honest RPCs, correctness of well-formed probes on fresh streams while the adversary holds < 50 streams, and 'every handler start attributed to the adversary equals a complete valid request it sent (independent parser)'; distinct by (frame limit, loss, number of action kinds) A scenario that outlives the watchdog is diagnosed: CPU-bound with the same innermost anemo:: frame in 3 gdb samples = livelock in the library (violation); otherwise inconclusive. The real code runs in a supervised child process (abort on an absurd allocation = violation).".into(),
        assumptions: vec!["only inputs expressible through QUIC streams/datagrams of an authenticated peer; memory exhaustion is not judged".into()],
        summary,
        extra: Default::default(),
        exhaustive: None,
        min_signatures: 6,
        required_counters: vec!["adversary_actions", "well_formed_probes_ok", "honest_rpcs_during_attack", "requests_from_adversary_served", "adv:trickle-past-own-deadline", "adv:truncated+finish", "adv:length-prefix", "adv:stop-response", "adv:valid-then-reset", "adv:abrupt-close-with-inflight", "adv:stream-flood"],
    })
}
