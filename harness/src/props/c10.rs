//! C10 – inbound admission follows peer affinity and the connection limit.

use super::Ctx;
use crate::{
    fabric::LinkParams,
    runner::{self, Report, RunCfg, ScenarioResult},
    world::{self, pid_hex, NodeCfg, World},
};
use anemo::{
    types::{PeerAffinity, PeerEvent, PeerInfo},
    PeerId,
};
use rand::{rngs::StdRng, Rng, SeedableRng};
use serde_json::json;
use std::time::Duration;

#[derive(Clone, Copy, Debug, PartialEq, Eq)]
enum Aff {
    Unknown,
    High,
    Allowed,
    Never,
}

fn admit(aff: Aff, limit: Option<usize>, established: usize) -> bool {
    match aff {
        Aff::Never => false,
        Aff::High | Aff::Allowed => true,
        Aff::Unknown => match limit {
            None => true,
            Some(l) => established < l,
        },
    }
}

fn set_aff(net: &anemo::Network, p: PeerId, a: Aff) {
    let kp = net.known_peers();
    match a {
        Aff::Unknown => {
            kp.remove(&p);
        }
        Aff::High => {
            // no address: never background-dialed, so arrivals stay non-overlapping
            kp.insert(PeerInfo { peer_id: p, affinity: PeerAffinity::High, address: vec![] });
        }
        Aff::Allowed => {
            kp.insert(PeerInfo { peer_id: p, affinity: PeerAffinity::Allowed, address: vec![] });
        }
        Aff::Never => {
            kp.insert(PeerInfo { peer_id: p, affinity: PeerAffinity::Never, address: vec![] });
        }
    }
}

pub fn scenario(idx: usize, seed: u64, max_steps: usize) -> ScenarioResult {
    runner::sim_block_on(|| async move {
        let mut w = World::new(seed);
        let mut rng = StdRng::seed_from_u64(seed ^ 0xc10);
        let limit: Option<usize> = *[None, Some(0), Some(1), Some(2), Some(3), Some(5)]
            .get(idx % 6)
            .unwrap();
        let lat = Duration::from_millis(rng.gen_range(1..5));
        w.fabric.set_default_link(LinkParams::fixed(lat));
        let nd = rng.gen_range(4..=8usize);
        let mut lc = NodeCfg::new(w.gen_key());
        lc.config.max_concurrent_connections = limit;
        lc.config.connect_timeout_ms = Some(2_000);
        lc.config.connectivity_check_interval_ms = Some(500);
        // settings and activity of the listener that admission must NOT depend on: the cap on
        // connections being established by background dialing, and explicit dials of its own
        // that are still pending (towards silent addresses) while peers arrive
        let dial_cap: Option<usize> = *[None, None, Some(0), Some(1), Some(2)].get(rng.gen_range(0..5)).unwrap();
        lc.config.max_concurrent_outstanding_connecting_connections = dial_cap;
        let pending_own_dials = if rng.gen_bool(0.35) { rng.gen_range(1..=3usize) } else { 0 };
        let mut q = anemo::QuicConfig::default();
        q.max_idle_timeout_ms = Some(600_000);
        q.keep_alive_interval_ms = Some(5_000);
        lc.config.quic = Some(q.clone());
        let l = w.start_node(lc).unwrap();
        let mut dialers = Vec::new();
        let mut affs = Vec::new();
        for _ in 0..nd {
            let mut c = NodeCfg::new(w.gen_key());
            c.config.connect_timeout_ms = Some(2_000);
            c.config.quic = Some(q.clone());
            let d = w.start_node(c).unwrap();
            let a = match rng.gen_range(0..10) {
                0..=4 => Aff::Unknown,
                5 | 6 => Aff::Allowed,
                7 => Aff::High,
                _ => Aff::Never,
            };
            set_aff(&l.net, d.peer_id, a);
            affs.push(a);
            dialers.push(d);
        }
        // one extra node that the limited node reaches by background dialing (High, with address)
        let mut own_dial_tasks = Vec::new();
        for k in 0..pending_own_dials {
            let net = l.net.clone();
            let a: std::net::SocketAddr = format!("10.99.{}.{}:9", 1 + (idx / 250) % 250, 1 + (idx % 250)).parse().unwrap();
            let a = std::net::SocketAddr::new(a.ip(), 9 + k as u16);
            own_dial_tasks.push(tokio::spawn(async move {
                loop {
                    let _ = net.connect(a).await; // fails after the 2 s connect timeout; start over
                }
            }));
        }
        let bg = if dial_cap.is_none() && pending_own_dials == 0 && rng.gen_bool(0.5) {
            let mut c = NodeCfg::new(w.gen_key());
            c.config.quic = Some(q.clone());
            let b = w.start_node(c).unwrap();
            Some(b)
        } else {
            None
        };
        let settle = lat * 8 + Duration::from_millis(100);
        let mut problems: Vec<String> = Vec::new();
        let mut trace: Vec<String> = Vec::new();
        let mut arrivals = 0u64;
        let mut admitted = 0u64;
        let mut rejected = 0u64;
        let mut at_limit_rejects = 0u64;
        let mut bypass_admits = 0u64;
        let mut explicit_at_limit = 0u64;
        let steps = rng.gen_range(10..=max_steps.max(11));
        let mut bg_inserted_at: Option<u64> = None;
        for step in 0..steps {
            if !problems.is_empty() {
                break;
            }
            tokio::time::sleep(settle).await;
            let kind = rng.gen_range(0..100);
            let i = rng.gen_range(0..nd);
            if kind < 55 {
                // arrival: dialer i -> L
                let d = &dialers[i];
                let before: Vec<PeerId> = world::sorted(l.net.peers());
                let established = before.len();
                let expect = admit(affs[i], limit, established);
                let was_connected = before.contains(&d.peer_id);
                let ev_mark = w.log.lock().events.get(&l.idx).map(|v| v.len()).unwrap_or(0);
                let t0 = w.now();
                // the dialer names the identity it expects in half of the arrivals (what a rejected
                // dialer observes must not depend on how it dialed)
                let pinned = rng.gen_bool(0.5);
                let r = if pinned { d.net.connect_with_peer_id(l.addr, l.peer_id).await } else { d.net.connect(l.addr).await };
                let dt = w.now() - t0;
                tokio::time::sleep(settle).await;
                let after = world::sorted(l.net.peers());
                let new_peer_seen = {
                    let g = w.log.lock();
                    g.events.get(&l.idx).map(|v| v[ev_mark..].iter().any(|e| matches!(&e.ev, PeerEvent::NewPeer(p) if *p == d.peer_id))).unwrap_or(false)
                };
                arrivals += 1;
                trace.push(format!(
                    "arrival d{i} aff={:?} established={established} limit={limit:?} expect_admit={expect} -> connect ok={} listed_after={}",
                    affs[i], r.is_ok(), after.contains(&d.peer_id)
                ));
                if expect {
                    admitted += 1;
                    if affs[i] != Aff::Unknown && limit.map(|l| established >= l).unwrap_or(false) {
                        bypass_admits += 1;
                    }
                    if r.is_err() {
                        problems.push(format!(
                            "arrival from a peer with affinity {:?} with {established} established and limit {limit:?} must be admitted, but its connect failed: {:#}",
                            affs[i], r.as_ref().unwrap_err()
                        ));
                    } else if !(new_peer_seen || was_connected) || !after.contains(&d.peer_id) {
                        problems.push(format!(
                            "admitted dialer d{i} (affinity {:?}) is not announced/listed by the listener", affs[i]
                        ));
                    }
                } else {
                    rejected += 1;
                    if affs[i] == Aff::Unknown {
                        at_limit_rejects += 1;
                    }
                    if r.is_ok() {
                        problems.push(format!(
                            "arrival from a peer with affinity {:?} with {established} established and limit {limit:?} must be rejected, but its connect succeeded",
                            affs[i]
                        ));
                    }
                    if dt > 2_000_000 + 500_000 {
                        problems.push(format!("rejected dialer's connect took {dt} us (> connect timeout)"));
                    }
                    if new_peer_seen && !was_connected {
                        problems.push(format!("listener announced rejected dialer d{i}"));
                    }
                    if after != before {
                        problems.push(format!(
                            "listener's listing changed because of a rejected arrival: {:?} -> {:?}",
                            before.iter().map(pid_hex).collect::<Vec<_>>(),
                            after.iter().map(pid_hex).collect::<Vec<_>>()
                        ));
                    }
                    if !was_connected && d.net.peers().contains(&l.peer_id) {
                        problems.push(format!("rejected dialer d{i} lists the listener"));
                    }
                }
            } else if kind < 65 {
                // explicit outbound dial by the limited node: never blocked by its own limit
                let d = &dialers[i];
                let established = l.net.peers().len();
                let r = l.net.connect_with_peer_id(d.addr, d.peer_id).await;
                if limit.map(|x| established >= x).unwrap_or(false) {
                    explicit_at_limit += 1;
                }
                trace.push(format!("explicit dial L->d{i} established={established} ok={}", r.is_ok()));
                if r.is_err() {
                    problems.push(format!(
                        "explicit dial by the limited node (established={established}, limit={limit:?}) failed: {:#}",
                        r.unwrap_err()
                    ));
                }
            } else if kind < 78 {
                let d = &dialers[i];
                let _ = l.net.disconnect(d.peer_id);
                trace.push(format!("L disconnects d{i}"));
            } else if kind < 88 {
                let d = &dialers[i];
                let _ = d.net.disconnect(l.peer_id);
                trace.push(format!("d{i} closes"));
            } else if kind < 96 {
                let a = match rng.gen_range(0..4) {
                    0 => Aff::Unknown,
                    1 => Aff::Allowed,
                    2 => Aff::High,
                    _ => Aff::Never,
                };
                set_aff(&l.net, dialers[i].peer_id, a);
                affs[i] = a;
                trace.push(format!("affinity d{i} := {a:?}"));
            } else if let (Some(b), None) = (&bg, bg_inserted_at) {
                l.net.known_peers().insert(PeerInfo {
                    peer_id: b.peer_id,
                    affinity: PeerAffinity::High,
                    address: vec![b.addr.into()],
                });
                bg_inserted_at = Some(w.now());
                // give the background dialer its bound: interval + 1 s jitter + connect time
                tokio::time::sleep(Duration::from_millis(500 + 1_000 + 500) + lat * 10).await;
                let est = l.net.peers().len();
                trace.push(format!("background High peer inserted; established={est}"));
                if !l.net.peers().contains(&b.peer_id) {
                    problems.push(format!(
                        "background dial to a High-affinity peer did not connect within interval+jitter+connect time (limit {limit:?}, established {est})"
                    ));
                }
            }
            let _ = step;
        }
        let sample = json!({
            "scenario": idx, "seed": seed, "limit": limit, "dialers": nd, "background_dial_cap": dial_cap, "own_dials_pending_throughout": pending_own_dials,
            "arrivals": arrivals, "admitted": admitted, "rejected": rejected,
            "history": trace.iter().take(70).collect::<Vec<_>>(),
        });
        for t in own_dial_tasks {
            t.abort();
        }
        w.close();
        let res = if !problems.is_empty() {
            let mut wit = sample;
            wit["problems"] = json!(problems);
            ScenarioResult::violated(problems[0].clone(), wit)
        } else {
            ScenarioResult::held(format!(
                "limit={limit:?} adm={} rej={} bypass={} atlimit={} bg={}",
                admitted.min(4), rejected.min(4), bypass_admits.min(2), at_limit_rejects.min(2), bg_inserted_at.is_some()
            ))
            .with_sample(sample)
        };
        res.count("arrivals", arrivals)
            .count("arrivals_admitted", admitted)
            .count("arrivals_rejected", rejected)
            .count("rejected_at_limit", at_limit_rejects)
            .count("admitted_over_limit_by_affinity", bypass_admits)
            .count("explicit_dials_at_limit", explicit_at_limit)
            .count("background_high_dials", bg_inserted_at.is_some() as u64)
    })
}

pub fn run(ctx: &Ctx) -> i32 {
    let tier = ctx.tier;
    let cfg = RunCfg {
        property: "C10",
        tier,
        seed: ctx.seed,
        scenarios: tier.pick(8_000, 200_000),
        threads: super::threads(),
        watchdog: Duration::from_secs(120),
        budget: Duration::from_secs(tier.pick(90, 900)),
        only: ctx.only,
    };
    let max_steps = tier.pick(40, 120);
    let summary = runner::run_scenarios(&cfg, move |i, s| scenario(i, s, max_steps));
    runner::finish(Report {
        property: "C10",
        tier,
        seed: ctx.seed,
        level: "exploration",
        rule: "scenario = one listener with limit in {None,0,1,2,3,5} and 4-8 dialers with seeded affinities (runtime KnownPeers edits); 10-40 (thorough 120) non-overlapping steps from {arrival, explicit outbound dial by the limited node, disconnect by either side, affinity change, background High peer}; each arrival is compared with the reference model admit(affinity, limit, established=listener.peers().len() at arrival); admit => connect Ok and NewPeer+listed; reject => connect Err within connect timeout, no NewPeer, listing unchanged, dialer does not list listener; distinct by (limit, outcome mix) The listener's background-dial cap (max_concurrent_outstanding_connecting_connections in {default,0,1,2}) and 0-3 explicit dials of its own that stay pending towards silent addresses are varied as things admission must not depend on. Half of the arrivals name the listener's identity (connect_with_peer_id).".into(),
        assumptions: vec!["truly simultaneous arrivals are excluded, as the property states; the world waits for quiescence between steps".into()],
        summary,
        extra: Default::default(),
        exhaustive: None,
        min_signatures: 10,
        required_counters: vec!["arrivals_admitted", "arrivals_rejected", "rejected_at_limit", "admitted_over_limit_by_affinity", "explicit_dials_at_limit", "background_high_dials"],
    })
}
