//! C16 – routing delivers each request to exactly the matching service.

use super::Ctx;
use crate::runner::{self, Report, RunCfg, ScenarioResult};
use anemo::{types::response::StatusCode, Request, Response, Router};
use bytes::Bytes;
use futures::future::BoxFuture;
use rand::{rngs::StdRng, seq::SliceRandom, Rng, SeedableRng};
use serde_json::json;
use std::{
    collections::BTreeMap,
    convert::Infallible,
    sync::{
        atomic::{AtomicU64, Ordering},
        Arc,
    },
    task::{Context, Poll},
    time::Duration,
};
use tower::{Layer, Service, ServiceExt};

#[derive(Clone)]
struct Leaf {
    id: u32,
    hits: Arc<Vec<AtomicU64>>,
}

impl Service<Request<Bytes>> for Leaf {
    type Response = Response<Bytes>;
    type Error = Infallible;
    type Future = std::future::Ready<Result<Response<Bytes>, Infallible>>;
    fn poll_ready(&mut self, _: &mut Context<'_>) -> Poll<Result<(), Infallible>> {
        Poll::Ready(Ok(()))
    }
    fn call(&mut self, req: Request<Bytes>) -> Self::Future {
        self.hits[self.id as usize].fetch_add(1, Ordering::SeqCst);
        std::future::ready(Ok(Response::new(Bytes::from(req.route().to_owned()))
            .with_header("leaf", self.id.to_string())))
    }
}

macro_rules! rpc_leaf {
    ($name:ident, $svc:expr) => {
        #[derive(Clone)]
        struct $name(Leaf);
        impl anemo::rpc::RpcService for $name {
            const SERVICE_NAME: &'static str = $svc;
        }
        impl Service<Request<Bytes>> for $name {
            type Response = Response<Bytes>;
            type Error = Infallible;
            type Future = std::future::Ready<Result<Response<Bytes>, Infallible>>;
            fn poll_ready(&mut self, _: &mut Context<'_>) -> Poll<Result<(), Infallible>> {
                Poll::Ready(Ok(()))
            }
            fn call(&mut self, req: Request<Bytes>) -> Self::Future {
                self.0.call(req)
            }
        }
    };
}
rpc_leaf!(Rpc0, "example.helloworld.Greeter");
rpc_leaf!(Rpc1, "Greeter");
rpc_leaf!(Rpc2, "example.helloworld.Greeter2");
rpc_leaf!(Rpc3, "a.b");
const RPC_NAMES: [&str; 4] = ["example.helloworld.Greeter", "Greeter", "example.helloworld.Greeter2", "a.b"];

#[derive(Clone)]
struct TagLayer {
    tag: u32,
    seen: Arc<AtomicU64>,
}

#[derive(Clone)]
struct TagSvc<S> {
    inner: S,
    tag: u32,
    seen: Arc<AtomicU64>,
}

impl<S> Layer<S> for TagLayer {
    type Service = TagSvc<S>;
    fn layer(&self, inner: S) -> TagSvc<S> {
        TagSvc { inner, tag: self.tag, seen: self.seen.clone() }
    }
}

impl<S> Service<Request<Bytes>> for TagSvc<S>
where
    S: Service<Request<Bytes>, Response = Response<Bytes>, Error = Infallible> + Clone + Send + 'static,
    S::Future: Send + 'static,
{
    type Response = Response<Bytes>;
    type Error = Infallible;
    type Future = BoxFuture<'static, Result<Response<Bytes>, Infallible>>;
    fn poll_ready(&mut self, cx: &mut Context<'_>) -> Poll<Result<(), Infallible>> {
        self.inner.poll_ready(cx)
    }
    fn call(&mut self, req: Request<Bytes>) -> Self::Future {
        self.seen.fetch_add(1, Ordering::SeqCst);
        let tag = self.tag;
        let fut = self.inner.call(req);
        Box::pin(async move {
            let mut r = fut.await?;
            let cur = r.headers().get("layers").cloned().unwrap_or_default();
            let new = if cur.is_empty() { tag.to_string() } else { format!("{cur},{tag}") };
            r.headers_mut().insert("layers".into(), new);
            Ok(r)
        })
    }
}

/// Reference description of one registered route.
#[derive(Clone, Debug)]
struct RefRoute {
    pattern: String,
    /// Some(prefix) for `/<prefix>/*name` (prefix may be empty for `/*name`)
    catch_all_prefix: Option<String>,
    leaf: u32,
    layers: Vec<u32>,
}

#[derive(Debug, PartialEq, Eq)]
enum RefMatch {
    None,
    Route(usize),
    /// empty tail of a catch-all: either that route or NotFound
    DontCare(usize),
}

fn ref_match(routes: &[RefRoute], r: &str) -> RefMatch {
    if let Some(i) = routes.iter().position(|x| x.catch_all_prefix.is_none() && x.pattern == r) {
        return RefMatch::Route(i);
    }
    // the longest catch-all prefix wins (conflict-free tables have at most one anyway)
    let mut best: Option<(usize, usize, bool)> = None;
    for (i, x) in routes.iter().enumerate() {
        if let Some(p) = &x.catch_all_prefix {
            let pre = format!("{p}/");
            if r.starts_with(&pre) {
                let empty_tail = r.len() == pre.len();
                if best.map(|b| pre.len() > b.1).unwrap_or(true) {
                    best = Some((i, pre.len(), empty_tail));
                }
            }
        }
    }
    match best {
        Some((i, _, false)) => RefMatch::Route(i),
        Some((i, _, true)) => RefMatch::DontCare(i),
        None => RefMatch::None,
    }
}

const SEGS: [&str; 12] = ["a", "b", "ab", "abc", "x.y", "user", "users", "v1", "Greeter", "a-b", "é", "0"];

fn gen_static(rng: &mut StdRng) -> String {
    let n = rng.gen_range(0..4);
    let mut s = String::from("/");
    for i in 0..n {
        if i > 0 {
            s.push('/');
        }
        s.push_str(SEGS.choose(rng).unwrap());
    }
    if n > 0 && rng.gen_range(0..6) == 0 {
        s.push('/');
    }
    s
}

struct Built {
    router: Router,
    routes: Vec<RefRoute>,
}

/// Builds a router by a seeded construction programme; mirrors it in the reference table.
fn build(rng: &mut StdRng, depth: usize, hits: &Arc<Vec<AtomicU64>>, next_leaf: &mut u32, next_tag: &mut u32, layer_seen: &Arc<AtomicU64>, ops_log: &mut Vec<String>) -> Built {
    let end = hits.len() as u32;
    build_from(Built { router: Router::new(), routes: Vec::new() }, end, rng, depth, hits, next_leaf, next_tag, layer_seen, ops_log)
}

/// Continues the construction of `start` (leaves are taken from `*next_leaf..leaf_end`).
#[allow(clippy::too_many_arguments)]
fn build_from(start: Built, leaf_end: u32, rng: &mut StdRng, depth: usize, hits: &Arc<Vec<AtomicU64>>, next_leaf: &mut u32, next_tag: &mut u32, layer_seen: &Arc<AtomicU64>, ops_log: &mut Vec<String>) -> Built {
    let Built { mut router, mut routes } = start;
    let n_ops = rng.gen_range(0..9);
    for _ in 0..n_ops {
        if *next_leaf + 2 >= leaf_end {
            break;
        }
        match rng.gen_range(0..10) {
            0..=3 => {
                let p = gen_static(rng);
                let leaf = *next_leaf;
                *next_leaf += 1;
                ops_log.push(format!("{}route({p:?}) -> leaf {leaf}", "  ".repeat(depth)));
                router = router.route(&p, Leaf { id: leaf, hits: hits.clone() });
                routes.push(RefRoute { pattern: p, catch_all_prefix: None, leaf, layers: vec![] });
            }
            4 | 5 => {
                let mut prefix = gen_static(rng);
                while prefix.ends_with('/') {
                    prefix.pop();
                }
                let name = ["rest", "tail", "x"].choose(rng).unwrap();
                let p = format!("{prefix}/*{name}");
                let leaf = *next_leaf;
                *next_leaf += 1;
                ops_log.push(format!("{}route({p:?}) -> leaf {leaf}", "  ".repeat(depth)));
                router = router.route(&p, Leaf { id: leaf, hits: hits.clone() });
                routes.push(RefRoute { pattern: p, catch_all_prefix: Some(prefix), leaf, layers: vec![] });
            }
            6 => {
                let k = rng.gen_range(0..4);
                let leaf = *next_leaf;
                *next_leaf += 1;
                let l = Leaf { id: leaf, hits: hits.clone() };
                ops_log.push(format!("{}add_rpc_service({:?}) -> leaf {leaf}", "  ".repeat(depth), RPC_NAMES[k]));
                router = match k {
                    0 => router.add_rpc_service(Rpc0(l)),
                    1 => router.add_rpc_service(Rpc1(l)),
                    2 => router.add_rpc_service(Rpc2(l)),
                    _ => router.add_rpc_service(Rpc3(l)),
                };
                routes.push(RefRoute { pattern: format!("/{}/*rest", RPC_NAMES[k]), catch_all_prefix: Some(format!("/{}", RPC_NAMES[k])), leaf, layers: vec![] });
            }
            7 | 8 => {
                let tag = *next_tag;
                *next_tag += 1;
                ops_log.push(format!("{}route_layer(tag {tag})", "  ".repeat(depth)));
                router = router.route_layer(TagLayer { tag, seen: layer_seen.clone() });
                for r in routes.iter_mut() {
                    r.layers.push(tag);
                }
            }
            _ => {
                if depth < 3 {
                    ops_log.push(format!("{}merge(", "  ".repeat(depth)));
                    let sub = build_from(Built { router: Router::new(), routes: Vec::new() }, leaf_end, rng, depth + 1, hits, next_leaf, next_tag, layer_seen, ops_log);
                    ops_log.push(format!("{})", "  ".repeat(depth)));
                    router = router.merge(sub.router);
                    routes.extend(sub.routes);
                }
            }
        }
    }
    Built { router, routes }
}

fn odd_requests(rng: &mut StdRng) -> Vec<String> {
    let mut v: Vec<String> = vec![
        "".into(), "/".into(), "//".into(), "*".into(), ":".into(), "{}".into(), "/*".into(), "/:x".into(), "/*rest".into(),
        "%2F".into(), "/%2F".into(), "/..".into(), "/a/../b".into(), "/\0".into(), "no-slash".into(), "a".into(),
        "/Greeter".into(), "/Greeter/".into(), "/Greeter/x".into(), "/greeter/x".into(), "/example.helloworld.Greeter/SayHello".into(),
        "/example.helloworld.Greeter2/SayHello".into(), "/example.helloworld.Greete/x".into(), "/a.b/c/d/e".into(),
        "x".repeat(70_000), format!("/{}", "y/".repeat(2_000)), "/🦀/𝄞".into(),
    ];
    // long strings with multi-byte characters at every byte alignment (whatever a router does with
    // a route - truncate it for a log line, split it, index into it - must respect char boundaries)
    for _ in 0..10 {
        let pad = rng.gen_range(0..8);
        let ch = *['é', 'ß', '日', '語', '🦀', '𝄞', 'а', '\u{800}'].choose(rng).unwrap();
        let n = rng.gen_range(20..200);
        let mut s = String::from("/");
        s.push_str(&"a".repeat(pad));
        for i in 0..n {
            s.push(ch);
            if i % 17 == 16 {
                s.push('/');
            }
        }
        v.push(s);
    }
    for _ in 0..4 {
        let n = rng.gen_range(100..400);
        let s: String = (0..n).map(|_| *['/', 'a', 'é', '日', '🦀', '.', 'ü'].choose(rng).unwrap()).collect();
        v.push(s);
    }
    for _ in 0..6 {
        let n = rng.gen_range(0..40);
        let s: String = (0..n).map(|_| *['/', 'a', 'b', '*', ':', '.', 'é', ' ', '\n', '{', '}'].choose(rng).unwrap()).collect();
        v.push(s);
    }
    v
}

/// Every fourth scenario builds its tables on 6 threads released together, each constructing all of
/// its routers back to back before any of them is queried: route tables built at the same time by
/// different parts of a program are still "every route table", and whatever process-wide state the
/// router's construction uses (id counters, interners) is exercised under real contention.
pub fn scenario(idx: usize, seed: u64, tables: usize) -> ScenarioResult {
    if idx % 4 != 3 || super::miri() {
        return scenario_on(idx, seed, tables, None);
    }
    let gate = Arc::new(std::sync::Barrier::new(6));
    let hs: Vec<_> = (0..6u64)
        .map(|k| {
            let gate = gate.clone();
            std::thread::spawn(move || scenario_on(idx, seed ^ (k << 40), tables, Some(&*gate)))
        })
        .collect();
    let mut out: Option<ScenarioResult> = None;
    for h in hs {
        let r = match h.join() {
            Ok(r) => r,
            Err(_) => ScenarioResult::inconclusive("a concurrent-construction thread of the harness died"),
        };
        out = Some(match out {
            None => r,
            Some(mut acc) => {
                let mut counters = acc.counters.clone();
                for (k, v) in &r.counters {
                    if k.starts_with("sig:") {
                        counters.insert(k.clone(), 1);
                    } else {
                        *counters.entry(k.clone()).or_default() += v;
                    }
                }
                if !matches!(acc.verdict, runner::Verdict::Violated { .. }) && !matches!(r.verdict, runner::Verdict::Held) {
                    acc = r;
                }
                acc.counters = counters;
                acc
            }
        });
    }
    let mut out = out.unwrap();
    *out.counters.entry("tables_built_concurrently_with_5_other_threads".into()).or_default() += 1;
    out
}

fn scenario_on(idx: usize, seed: u64, tables: usize, gate: Option<&std::sync::Barrier>) -> ScenarioResult {
    let _ = runner::take_panics();
    let mut rng = StdRng::seed_from_u64(seed ^ 0xc16);
    let rt = tokio::runtime::Builder::new_current_thread().build().unwrap();
    let mut problems: Vec<String> = Vec::new();
    let (mut n_tables, mut n_rejected, mut n_req, mut n_match, mut n_nf, mut n_dc, mut n_layered, mut n_merged) = (0u64, 0u64, 0u64, 0u64, 0u64, 0u64, 0u64, 0u64);
    let mut n_cross = 0u64;
    let mut sigs: std::collections::BTreeSet<String> = Default::default();
    let mut sample = None;
    // phase 1: construct every table of this scenario (back to back; released together with the
    // other threads of a concurrent-construction scenario)
    let mut all_built = Vec::new();
    if let Some(g) = gate {
        g.wait();
    }
    // every fourth scenario (idx % 4 == 1) assembles each table across threads: two parts are built
    // on two other threads, merged here, and the construction continues on this thread - a router
    // is a value that may be built in one place (spawn_blocking, a plugin's init thread) and
    // extended in another
    let cross_thread = idx % 4 == 1 && !super::miri() && gate.is_none();
    for _t in 0..tables {
        let hits: Arc<Vec<AtomicU64>> = Arc::new((0..if cross_thread { 192 } else { 64 }).map(|_| AtomicU64::new(0)).collect());
        let layer_seen = Arc::new(AtomicU64::new(0));
        let mut ops = Vec::new();
        let mut rng2 = StdRng::seed_from_u64(rng.gen());
        let (mut nl, mut nt) = (0u32, 1u32);
        let built = if cross_thread {
            n_cross += 1;
            // each part runs on a FRESH thread (whatever per-thread construction state there is starts
            // from scratch there); a part may continue a router that another thread began
            let part = |start: Option<Built>, seed: u64, leaf0: u32, leaf_end: u32, tag0: u32| {
                let (hits, layer_seen) = (hits.clone(), layer_seen.clone());
                std::thread::spawn(move || {
                    let mut r = StdRng::seed_from_u64(seed);
                    let (mut nl, mut nt) = (leaf0, tag0);
                    let mut ops = Vec::new();
                    let start = start.unwrap_or(Built { router: Router::new(), routes: Vec::new() });
                    let b = std::panic::catch_unwind(std::panic::AssertUnwindSafe(|| build_from(start, leaf_end, &mut r, 1, &hits, &mut nl, &mut nt, &layer_seen, &mut ops)));
                    let msg = runner::take_panics().last().map(|p| p.message.clone());
                    (b.ok(), ops, msg)
                })
                .join()
                .unwrap()
            };
            let (a, ops_a, mut msg_a) = part(None, rng2.gen(), 0, 30, 1);
            ops.push("begun on thread 1 {".into());
            ops.extend(ops_a);
            // ... continued on thread 2
            let a = match a {
                Some(a) => {
                    let (a2, ops_a2, m) = part(Some(a), rng2.gen(), 30, 62, 500);
                    ops.push("} continued on thread 2 {".into());
                    ops.extend(ops_a2);
                    msg_a = msg_a.or(m);
                    a2
                }
                None => None,
            };
            let (b, ops_b, msg_b) = part(None, rng2.gen(), 64, 126, 1_000);
            ops.push("} another part on thread 3 {".into());
            ops.extend(ops_b);
            ops.push("} merged and continued on the scenario's thread:".into());
            match (a, b) {
                (Some(a), Some(b)) => {
                    (nl, nt) = (128, 2_000);
                    std::panic::catch_unwind(std::panic::AssertUnwindSafe(|| {
                        let mut routes = a.routes;
                        routes.extend(b.routes);
                        let merged = Built { router: a.router.merge(b.router), routes };
                        build_from(merged, 190, &mut rng2, 0, &hits, &mut nl, &mut nt, &layer_seen, &mut ops)
                    }))
                }
                _ => {
                    // a part was rejected at construction: judge the message like any other rejection
                    let msg = msg_a.or(msg_b).unwrap_or_default();
                    if !(msg.contains("Invalid route") || msg.contains("Paths must start")) {
                        problems.push(format!("router construction panicked with an undocumented message: {msg}"));
                    }
                    n_rejected += 1;
                    continue;
                }
            }
        } else {
            std::panic::catch_unwind(std::panic::AssertUnwindSafe(|| build(&mut rng2, 0, &hits, &mut nl, &mut nt, &layer_seen, &mut ops)))
        };
        match built {
            Ok(b) => all_built.push((b, hits, layer_seen, ops)),
            Err(_) => {
                // documented build-time rejection (conflicting or malformed patterns)
                let p = runner::take_panics();
                let msg = p.last().map(|p| p.message.clone()).unwrap_or_default();
                if !(msg.contains("Invalid route") || msg.contains("Paths must start")) {
                    problems.push(format!("router construction panicked with an undocumented message: {msg}"));
                }
                n_rejected += 1;
            }
        }
    }
    // phase 2: query them
    for (built, hits, layer_seen, ops) in all_built {
        if !problems.is_empty() {
            break;
        }
        n_tables += 1;
        if ops.iter().any(|o| o.contains("merge(")) {
            n_merged += 1;
        }
        let routes = built.routes;
        // requests: instantiations, near misses, oddities
        let mut reqs: Vec<String> = Vec::new();
        for r in &routes {
            match &r.catch_all_prefix {
                None => {
                    reqs.push(r.pattern.clone());
                    reqs.push(format!("{}/", r.pattern));
                    reqs.push(r.pattern.trim_end_matches('/').to_owned());
                    reqs.push(r.pattern.to_uppercase());
                    reqs.push(r.pattern.replace('/', "//"));
                }
                Some(p) => {
                    for tail in ["x", "SayHello", "a/b/c", "*", ":", " ", "é", "/", "//x"] {
                        reqs.push(format!("{p}/{tail}"));
                    }
                    reqs.push(format!("{p}/"));
                    reqs.push(p.clone());
                    reqs.push(format!("{p}x/y"));
                }
            }
        }
        reqs.extend(odd_requests(&mut rng));
        for q in reqs {
            n_req += 1;
            let before: Vec<u64> = hits.iter().map(|h| h.load(Ordering::SeqCst)).collect();
            let layers_before = layer_seen.load(Ordering::SeqCst);
            let router = built.router.clone();
            let qq = q.clone();
            let out = std::panic::catch_unwind(std::panic::AssertUnwindSafe(|| {
                rt.block_on(async move { router.oneshot(Request::new(Bytes::new()).with_route(qq)).await })
            }));
            let short: String = q.chars().take(60).collect();
            let resp = match out {
                Ok(Ok(r)) => r,
                Ok(Err(e)) => match e {},
                Err(_) => {
                    let p = runner::take_panics();
                    problems.push(format!("routing panicked on route string {short:?}: {:?}", p.last().map(|p| (p.message.clone(), runner::norm_location(&p.location)))));
                    break;
                }
            };
            let after: Vec<u64> = hits.iter().map(|h| h.load(Ordering::SeqCst)).collect();
            let fired: Vec<usize> = (0..after.len()).filter(|i| after[*i] != before[*i]).collect();
            let total: u64 = (0..after.len()).map(|i| after[i] - before[i]).sum();
            let layers_fired = layer_seen.load(Ordering::SeqCst) - layers_before;
            let want = ref_match(&routes, &q);
            let check_route = |i: usize, problems: &mut Vec<String>| {
                let rr = &routes[i];
                if total != 1 || fired != vec![rr.leaf as usize] {
                    problems.push(format!("request {short:?} must be handled by exactly the service registered for {:?} (leaf {}), but services {:?} were invoked ({total} invocations)", rr.pattern, rr.leaf, fired));
                    return;
                }
                if resp.status() != StatusCode::Success || resp.headers().get("leaf") != Some(&rr.leaf.to_string()) {
                    problems.push(format!("request {short:?}: response is not the matching service's (status {:?}, leaf {:?})", resp.status(), resp.headers().get("leaf")));
                }
                let want_layers = rr.layers.iter().map(|t| t.to_string()).collect::<Vec<_>>().join(",");
                let got_layers = resp.headers().get("layers").cloned().unwrap_or_default();
                if got_layers != want_layers || layers_fired != rr.layers.len() as u64 {
                    problems.push(format!("request {short:?} to {:?}: route-level middleware applied = [{got_layers}] ({layers_fired} layer calls), expected [{want_layers}]", rr.pattern));
                }
            };
            let check_none = |problems: &mut Vec<String>| {
                if total != 0 {
                    problems.push(format!("request {short:?} matches no registered pattern but services {fired:?} were invoked"));
                } else if resp.status() != StatusCode::NotFound {
                    problems.push(format!("request {short:?} matches no registered pattern but the status is {:?}", resp.status()));
                } else if layers_fired != 0 || resp.headers().contains_key("layers") {
                    problems.push(format!("request {short:?} is unmatched but route-level middleware ran"));
                }
            };
            match want {
                RefMatch::Route(i) => {
                    n_match += 1;
                    if !routes[i].layers.is_empty() {
                        n_layered += 1;
                    }
                    check_route(i, &mut problems);
                    sigs.insert(format!("match catchall={} layers={}", routes[i].catch_all_prefix.is_some(), routes[i].layers.len().min(3)));
                }
                RefMatch::None => {
                    n_nf += 1;
                    check_none(&mut problems);
                    sigs.insert(format!("notfound len={}", match q.len() { 0 => "0", 1..=63 => "short", _ => "long" }));
                }
                RefMatch::DontCare(i) => {
                    n_dc += 1;
                    if total == 0 {
                        check_none(&mut problems);
                    } else {
                        check_route(i, &mut problems);
                    }
                    sigs.insert(format!("empty-tail handled={}", total));
                }
            }
            if !problems.is_empty() {
                problems.push(format!("table: {}", ops.join(" ; ")));
                break;
            }
        }
        if sample.is_none() && routes.len() >= 3 {
            sample = Some(json!({"construction": ops, "routes": routes.iter().map(|r| json!({"pattern": r.pattern, "leaf": r.leaf, "layers": r.layers})).collect::<Vec<_>>()}));
        }
    }
    let mut r = if problems.is_empty() {
        ScenarioResult::held(sigs.iter().next().cloned().unwrap_or_else(|| "none".into()))
    } else {
        ScenarioResult::violated(problems[0].clone(), json!({"scenario": idx, "seed": seed, "problems": problems}))
    };
    r.sample = sample;
    let mut c: BTreeMap<String, u64> = BTreeMap::new();
    c.insert("tables_built".into(), n_tables);
    c.insert("tables_rejected_at_construction".into(), n_rejected);
    c.insert("tables_with_merge".into(), n_merged);
    c.insert("tables_assembled_across_threads".into(), n_cross);
    c.insert("requests_routed".into(), n_req);
    c.insert("requests_matched".into(), n_match);
    c.insert("requests_matched_with_layers".into(), n_layered);
    c.insert("requests_not_found".into(), n_nf);
    c.insert("requests_empty_tail_dont_care".into(), n_dc);
    for s in sigs {
        c.insert(format!("sig:{s}"), 1);
    }
    r.counters = c;
    r
}

pub fn run(ctx: &Ctx) -> i32 {
    let tier = ctx.tier;
    let cfg = RunCfg {
        property: "C16",
        tier,
        seed: ctx.seed,
        scenarios: if super::miri() { 2 } else { tier.pick(2_000, 20_000) },
        threads: super::threads(),
        watchdog: Duration::from_secs(if super::miri() { 3_000 } else { 300 }),
        budget: Duration::from_secs(tier.pick(90, 900)),
        only: ctx.only,
    };
    let tables = if super::miri() { 4 } else { tier.pick(40, 100) };
    let mut summary = runner::run_scenarios(&cfg, move |i, s| scenario(i, s, tables));
    let sig_keys: Vec<String> = summary.counters.keys().filter(|k| k.starts_with("sig:")).cloned().collect();
    for k in sig_keys {
        summary.counters.remove(&k);
        summary.signatures.insert(k[4..].to_owned());
    }
    runner::finish(Report {
        property: "C16",
        tier,
        seed: ctx.seed,
        level: "exploration",
        rule: "per scenario 40-100 route tables built by seeded construction programmes of route (static paths, /<prefix>/*tail catch-alls), add_rpc_service, route_layer and merge (depth <= 3); construction panics with the documented message are build-time rejections; every built table receives each pattern instantiated, near misses (extra/missing slash, case, doubled slashes, prefix without slash, empty tail) and ~35 odd strings (empty, no slash, '*', ':', '{}', %2F, '..', NUL, 70 KB, 4-byte UTF-8, random); each leaf and each layer counts its invocations and stamps the response; oracle = reference matcher (static equality; catch-all = prefix + non-empty tail; empty tail is a don't-care between that route and NotFound) and reference layer stacks; no call-time panic; distinct by (match kind, catch-all?, layer depth / not-found class) Every fourth scenario constructs its tables on 6 barrier-released threads, each building all of its routers back to back before any is queried (process-wide construction state under contention).".into(),
        assumptions: vec![":param segments are not part of the stated pattern language and are not generated".into()],
        summary,
        extra: Default::default(),
        exhaustive: None,
        min_signatures: 6,
        required_counters: vec!["tables_built", "tables_rejected_at_construction", "tables_with_merge", "requests_matched", "requests_matched_with_layers", "requests_not_found", "requests_empty_tail_dont_care"],
    })
}
