//! C11 – request deadline = min(local default, timeout header), end to end.

use super::Ctx;
use crate::{
    fabric::LinkParams,
    runner::{self, Report, RunCfg, ScenarioResult},
    world::{self, HandlerEnd, NodeCfg, Outcome, RpcSpec, Script, World, NEVER},
};
use rand::{rngs::StdRng, seq::SliceRandom, Rng, SeedableRng};
use serde_json::json;
use std::{
    sync::{atomic::AtomicUsize, Arc},
    time::Duration,
};
use tower::{Service, ServiceExt};

const L_US: u64 = 5_000;
const MARGIN_US: u64 = 50_000;
const TOL_US: u64 = 3_000;

/// Reference parser for the header: a plain decimal u64 (nanoseconds) or nothing.
fn ref_parse(h: &Option<String>) -> Option<u64> {
    let s = h.as_ref()?;
    if s.is_empty() || !s.bytes().all(|b| b.is_ascii_digit()) {
        return None;
    }
    s.parse::<u64>().ok()
}

fn min_opt(a: Option<u64>, b: Option<u64>) -> Option<u64> {
    match (a, b) {
        (None, None) => None,
        (Some(x), None) | (None, Some(x)) => Some(x),
        (Some(x), Some(y)) => Some(x.min(y)),
    }
}

#[derive(Debug, Clone, Copy, PartialEq, Eq)]
enum Expect {
    Success,
    ServerTimeout,
    CallerTimeout,
}

const GRID_MS: [u64; 12] = [0, 60, 130, 200, 350, 500, 800, 1_300, 2_000, 5_000, 12_000, 60_000];

fn header_pool(rng: &mut StdRng) -> Option<String> {
    let ms = *GRID_MS.choose(rng).unwrap();
    match rng.gen_range(0..24) {
        0..=3 => None,
        4..=12 => Some((ms * 1_000_000).to_string()),
        13 => Some("0".into()),
        14 => Some("1".into()),
        15 => Some(u64::MAX.to_string()),
        16 => Some("18446744073709551616".into()),
        17 => Some("-1".into()),
        18 => Some(["1e3", " 5", "5 ", "0x10", "", "abc", "５００", "1_000", "12.5"].choose(rng).unwrap().to_string()),
        19 => Some("9".repeat(100)),
        20 => Some(format!("{}ns", ms * 1_000_000)),
        _ => Some((ms * 1_000_000 + rng.gen_range(0..1000)).to_string()),
    }
}

pub fn scenario(idx: usize, seed: u64, rpcs: usize) -> ScenarioResult {
    runner::sim_block_on(|| async move {
        let mut w = World::new(seed);
        let mut rng = StdRng::seed_from_u64(seed ^ 0xc11);
        w.fabric.set_default_link(LinkParams::fixed(Duration::from_micros(L_US)));
        let pick = |rng: &mut StdRng| -> Option<u64> {
            if rng.gen_bool(0.35) { None } else { Some(*GRID_MS.choose(rng).unwrap()) }
        };
        let mut cfgs = Vec::new();
        let counters = [Arc::new(AtomicUsize::new(0)), Arc::new(AtomicUsize::new(0))];
        let with_layer = [rng.gen_bool(0.5), rng.gen_bool(0.5)];
        let mut defaults = Vec::new();
        let mut layer_delay_us = [0u64; 2];
        for i in 0..2 {
            let mut c = NodeCfg::new(w.gen_key());
            let o = pick(&mut rng);
            let ib = pick(&mut rng);
            c.config.outbound_request_timeout_ms = o;
            c.config.inbound_request_timeout_ms = ib;
            let mut q = anemo::QuicConfig::default();
            q.max_idle_timeout_ms = Some(3_600_000);
            q.keep_alive_interval_ms = Some(20_000);
            c.config.quic = Some(q);
            if with_layer[i] {
                c.outbound_layer = Some(counters[i].clone());
                // half of the user layers are not pass-through: they forward a request only after a
                // while (throttle / queue); that time counts against the caller's deadline
                if rng.gen_bool(0.5) {
                    layer_delay_us[i] = *[120_000u64, 400_000, 1_500_000].choose(&mut rng).unwrap();
                    c.outbound_layer_delay = Duration::from_micros(layer_delay_us[i]);
                }
            }
            defaults.push((o, ib));
            cfgs.push(c);
        }
        let layer_delay_us = layer_delay_us;
        let a = w.start_node(cfgs.remove(0)).unwrap();
        let b = w.start_node(cfgs.remove(0)).unwrap();
        if a.net.connect(b.addr).await.is_err() {
            w.close();
            return ScenarioResult::inconclusive("setup dial failed");
        }
        tokio::time::sleep(Duration::from_millis(200)).await;
        let nodes = [&a, &b];
        let mut problems: Vec<String> = Vec::new();
        let mut awaited_modes: std::collections::BTreeMap<&'static str, u64> = Default::default();
        let mut cases: Vec<serde_json::Value> = Vec::new();
        let mut n_succ = 0u64;
        let mut n_srv = 0u64;
        let mut n_cli = 0u64;
        let mut n_unparsable = 0u64;
        let mut layer_expected = [0usize; 2];
        let mut done = 0;
        let mut guard = 0;
        while done < rpcs && guard < rpcs * 20 && problems.is_empty() {
            guard += 1;
            let from = rng.gen_range(0..2);
            let to = 1 - from;
            let o = defaults[from].0.map(|ms| ms * 1_000);
            let i_def = defaults[to].1.map(|ms| ms * 1_000);
            let hdr = header_pool(&mut rng);
            let h = ref_parse(&hdr).map(|ns| ns / 1_000);
            let h_exact_ns = ref_parse(&hdr);
            let d: Option<u64> = match rng.gen_range(0..12) {
                0 => None, // never finishes
                1 => Some(0),
                _ => Some(*GRID_MS.choose(&mut rng).unwrap() * 1_000 + if rng.gen_bool(0.3) { 25_000 } else { 0 }),
            };
            let c = min_opt(o, h);
            let s = min_opt(i_def, h);
            // sub-microsecond header values round to 0 us in the model; keep them but treat as 0
            let _ = h_exact_ns;
            let inf = u64::MAX / 4;
            let (dv, cv, sv) = (d.unwrap_or(inf), c.unwrap_or(inf), s.unwrap_or(inf));
            if dv.min(cv).min(sv) > 100_000_000 {
                continue; // nothing would return within the scenario's virtual horizon
            }
            // u: time the caller's own outbound layer holds the request before forwarding it; the
            // caller's deadline runs from the call, the serving side's from the arrival
            let u = layer_delay_us[from];
            let (du, su) = (dv.saturating_add(u), sv.saturating_add(u));
            let same_header = u == 0 && c.is_some() && c == s && c == h && o.map(|x| x > h.unwrap()).unwrap_or(true) && i_def.map(|x| x > h.unwrap()).unwrap_or(true);
            let expect = if dv.saturating_add(MARGIN_US) <= sv && du.saturating_add(MARGIN_US) <= cv && !(dv == 0 && cv.min(sv) < MARGIN_US) {
                Expect::Success
            } else if sv.saturating_add(MARGIN_US) <= dv && su.saturating_add(MARGIN_US) <= cv {
                Expect::ServerTimeout
            } else if cv.saturating_add(MARGIN_US) <= du.min(su) || (same_header && cv.saturating_add(MARGIN_US) <= dv) {
                Expect::CallerTimeout
            } else if cv == 0 && sv == 0 && dv >= MARGIN_US {
                Expect::CallerTimeout
            } else {
                continue; // boundary race, not judged
            };
            done += 1;
            if hdr.is_some() && h.is_none() {
                n_unparsable += 1;
            }
            let mut spec = RpcSpec::simple(rng.gen_range(0..200), done as u64).with_script(Script {
                delay_us: d.unwrap_or(NEVER),
                resp_len: 33,
                status: 200,
                nhdr: 0,
                seed: 7 + done as u64,
            });
            if let Some(hv) = &hdr {
                spec.headers.insert("timeout".into(), hv.clone());
            }
            let via = rng.gen_range(0..3);
            let id = w.next_id();
            let req = world::build_request(id, &spec);
            let peer = nodes[to].peer_id;
            world::log_call(&w.log, id, nodes[from].idx, &peer, &req);
            let t0 = w.now();
            if with_layer[from] {
                layer_expected[from] += 1;
            }
            let net = nodes[from].net.clone();
            let mut fut: futures::future::BoxFuture<'static, anyhow::Result<anemo::Response<bytes::Bytes>>> = Box::pin(async move {
                match via {
                    0 => net.rpc(peer, req).await,
                    1 => match net.peer(peer) {
                        Some(mut p) => p.rpc(req).await,
                        None => Err(anyhow::anyhow!("not connected")),
                    },
                    _ => match net.peer(peer) {
                        Some(mut p) => match p.ready().await {
                            Ok(svc) => svc.call(req).await,
                            Err(e) => Err(e),
                        },
                        None => Err(anyhow::anyhow!("not connected")),
                    },
                }
            });
            // how the caller drives the call: awaited in place; polled once here and then finished
            // by another task; raced against a short timer first and then handed to another task.
            // The deadline must fire whichever task holds the future when it expires.
            let awaited = rng.gen_range(0..4usize).min(2);
            let long = Duration::from_secs(200);
            let res = match awaited {
                0 => tokio::time::timeout(long, fut).await,
                1 => match futures::poll!(&mut fut) {
                    std::task::Poll::Ready(r) => Ok(r),
                    std::task::Poll::Pending => tokio::time::timeout(long, tokio::spawn(fut)).await.map(|j| j.unwrap_or_else(|e| Err(anyhow::anyhow!("task failed: {e}")))),
                },
                _ => {
                    let first = Duration::from_micros(rng.gen_range(0..30_000));
                    tokio::select! {
                        biased;
                        r = &mut fut => Ok(r),
                        _ = tokio::time::sleep(first) => tokio::time::timeout(long, tokio::spawn(fut)).await.map(|j| j.unwrap_or_else(|e| Err(anyhow::anyhow!("task failed: {e}")))),
                    }
                }
            };
            *awaited_modes.entry(["in-place", "polled-once-then-spawned", "select-then-spawned"][awaited]).or_default() += 1;
            let t1 = w.now();
            let res = match res {
                Ok(r) => r,
                Err(_) => {
                    problems.push(format!("rpc did not return within 200 s (expected {expect:?}); outbound default {o:?} us, inbound default {i_def:?} us, header {hdr:?}, handler duration {d:?} us, via {via}, awaited {awaited}"));
                    break;
                }
            };
            world::log_return(&w.log, id, &res);
            // let the cancellation reach the handler before reading its record
            tokio::time::sleep(Duration::from_micros(4 * L_US + 20_000)).await;
            let (h_start, h_end, h_fin) = {
                let g = w.log.lock();
                match g.starts.iter().find(|x| x.id == Some(id)) {
                    Some(x) => (Some(x.t_start), x.t_end, matches!(x.end, Some(HandlerEnd::Finish(_)))),
                    None => (None, None, false),
                }
            };
            let elapsed = t1 - t0;
            let via_name = ["Network::rpc", "Peer::rpc", "Peer as tower::Service"][via];
            let awaited_name = ["in-place", "polled-once-then-spawned", "select-then-spawned"][awaited];
            let case = json!({
                "dir": format!("{from}->{to}"), "via": via_name, "awaited": awaited_name,
                "outbound_default_us": o, "inbound_default_us": i_def, "header": hdr.as_ref().map(|s| s.chars().take(24).collect::<String>()),
                "handler_duration_us": d, "expect": format!("{expect:?}"),
                "returned_after_us": elapsed,
                "result": match &res { Ok(r) => format!("Ok({})", r.status().to_u16()), Err(e) => format!("Err({})", format!("{e:#}").chars().take(60).collect::<String>()) },
                "handler_life_us": h_start.zip(h_end).map(|(s, e)| e - s), "handler_finished": h_fin,
            });
            let mut bad = |m: String| problems.push(format!("{m}; case {case}"));
            match expect {
                Expect::Success => {
                    n_succ += 1;
                    match &res {
                        Ok(r) if r.status().to_u16() == 200 && r.body().len() == 33 => {}
                        other => bad(format!("handler needs less than every deadline but the call returned {:?}", other.as_ref().map(|r| r.status()).map_err(|e| e.to_string()))),
                    }
                    let want = 2 * L_US + du;
                    if elapsed > want + TOL_US || elapsed + TOL_US < want {
                        bad(format!("successful call took {elapsed} us, expected {want}"));
                    }
                    if !h_fin {
                        bad("handler did not finish".into());
                    }
                }
                Expect::ServerTimeout => {
                    n_srv += 1;
                    match &res {
                        Ok(r) if r.status().to_u16() == 408 => {}
                        other => bad(format!("serving side's deadline ({sv} us) is the smallest but the call returned {:?}", other.as_ref().map(|r| r.status()).map_err(|e| e.to_string()))),
                    }
                    let want = 2 * L_US + su;
                    if elapsed > want + TOL_US || elapsed + TOL_US < want {
                        bad(format!("RequestTimeout reply arrived after {elapsed} us, expected {want}"));
                    }
                    match (h_start, h_end) {
                        (Some(s0), Some(e0)) => {
                            if h_fin {
                                bad("handler ran to completion past the serving side's deadline".into());
                            }
                            let life = e0 - s0;
                            if life > sv + TOL_US || life + TOL_US < sv {
                                bad(format!("handler was dropped after {life} us, deadline {sv}"));
                            }
                        }
                        (Some(_), None) => bad("handler still alive after the serving side's deadline".into()),
                        _ => bad("handler never started".into()),
                    }
                }
                Expect::CallerTimeout => {
                    n_cli += 1;
                    match &res {
                        Err(e) if format!("{e:#}").contains("Timeout expired") => {}
                        other => bad(format!("calling side's deadline ({cv} us) is the smallest but the call returned {:?}", other.as_ref().map(|r| r.status()).map_err(|e| format!("{e:#}")))),
                    }
                    if elapsed > cv + TOL_US || elapsed + TOL_US < cv {
                        bad(format!("caller's timeout fired after {elapsed} us, deadline {cv}"));
                    }
                    if h_fin && du > cv + 4 * L_US + 20_000 {
                        bad("handler ran to completion although the caller had given up".into());
                    }
                    if let (Some(_), None) = (h_start, h_end) {
                        bad("handler still alive after the caller timed out and the cancellation had time to arrive".into());
                    }
                }
            }
            // never: handler outlives min?(I,h); caller waits beyond min?(O,h)
            if let (Some(s0), Some(lim)) = (h_start, s) {
                let end = h_end.unwrap_or(w.now());
                if end - s0 > lim + TOL_US {
                    bad(format!("handler lived {} us, local inbound limit with header is {lim}", end - s0));
                }
            }
            if let Some(lim) = c {
                if elapsed > lim + TOL_US {
                    bad(format!("caller waited {elapsed} us, local outbound limit with header is {lim}"));
                }
            }
            if cases.len() < 6 {
                cases.push(case);
            }
        }
        // whatever the deadline machinery does, the handler must see the request as it was sent
        {
            let g = w.log.lock();
            let mut st = world::DeliveryStats::default();
            for p in world::check_delivery(&g, &mut st).into_iter().take(2) {
                problems.push(format!("delivery: {p}"));
            }
        }
        for i in 0..2 {
            let seen = counters[i].load(std::sync::atomic::Ordering::SeqCst);
            if with_layer[i] && seen != layer_expected[i] {
                problems.push(format!("user outbound layer of node {i} saw {seen} requests, {} were sent", layer_expected[i]));
            }
        }
        let sample = json!({"scenario": idx, "seed": seed, "one_way_latency_us": L_US,
            "defaults_ms(outbound,inbound)": defaults, "user_outbound_layer": with_layer, "cases": cases});
        w.close();
        let res = if !problems.is_empty() {
            let mut wit = sample;
            wit["problems"] = json!(problems);
            ScenarioResult::violated(problems[0].chars().take(300).collect::<String>(), wit)
        } else {
            ScenarioResult::held(format!(
                "O={:?}/{:?} I={:?}/{:?} succ={} srv={} cli={}",
                defaults[0].0.is_some(), defaults[1].0.is_some(), defaults[0].1.is_some(), defaults[1].1.is_some(),
                n_succ.min(2), n_srv.min(2), n_cli.min(2)
            ))
            .with_sample(sample)
        };
        res.count("rpcs_judged", n_succ + n_srv + n_cli)
            .count("expect_success", n_succ)
            .count("expect_server_timeout", n_srv)
            .count("expect_caller_timeout", n_cli)
            .count("unparsable_headers", n_unparsable)
            .count("awaited_in_place", awaited_modes.get("in-place").copied().unwrap_or(0))
            .count("awaited_polled_once_then_spawned", awaited_modes.get("polled-once-then-spawned").copied().unwrap_or(0))
            .count("awaited_select_then_spawned", awaited_modes.get("select-then-spawned").copied().unwrap_or(0))
    })
}

pub fn run(ctx: &Ctx) -> i32 {
    let tier = ctx.tier;
    let cfg = RunCfg {
        property: "C11",
        tier,
        seed: ctx.seed,
        scenarios: tier.pick(6_000, 200_000),
        threads: super::threads(),
        watchdog: Duration::from_secs(120),
        budget: Duration::from_secs(tier.pick(90, 900)),
        only: ctx.only,
    };
    let rpcs = tier.pick(25, 40);
    let summary = runner::run_scenarios(&cfg, move |i, s| scenario(i, s, rpcs));
    runner::finish(Report {
        property: "C11",
        tier,
        seed: ctx.seed,
        level: "exploration",
        rule: "scenario = two real Networks (fixed 5 ms one-way latency, loss-free) with seeded outbound/inbound defaults in {None,0,60ms..60s}, optional user outbound layer; 25-40 sequential RPCs in both directions through Network::rpc / Peer::rpc / Peer as tower Service, awaited in place / polled once and then finished by another task / raced in a select! and then handed to another task, with a seeded timeout header (absent, 0, grid values, u64::MAX, overflowing, negative, non-numeric, padded, 100 digits, non-ASCII) and scripted handler duration (0, grid, never); combinations whose three deadlines are closer than 50 ms are not judged; reference model C=min?(O,h), S=min?(I,h) decides outcome class, exact virtual-time latency (+-3 ms) and handler lifetime; distinct by (which defaults are set, outcome mix) Nodes are configured with their builder setters in a key-derived order; half of the user outbound layers are not pass-through but hold each request for 120 ms-1.5 s before forwarding it (the model counts that time against the caller's deadline only).".into(),
        assumptions: vec!["sub-millisecond accuracy is not judged (timer wheel granularity)".into()],
        summary,
        extra: Default::default(),
        exhaustive: None,
        min_signatures: 10,
        required_counters: vec!["expect_success", "expect_server_timeout", "expect_caller_timeout", "unparsable_headers"],
    })
}
