//! C17 – generated typed clients reach the matching typed handlers.
//!
//! (a) generator level: run `anemo_build::{client,server}::generate` on seeded definitions and read
//!     the routes off the generated token streams (syn AST);
//! (b) execution level: `/verif/harness-codegen` compiles a seeded batch of generated services
//!     and drives every client method against scripted handlers.

use super::Ctx;
use crate::runner::{self, Report, RunCfg, ScenarioResult};
use anemo_build::manual::{Method, Service};
use rand::{rngs::StdRng, seq::SliceRandom, Rng, SeedableRng};
use serde_json::json;
use std::{collections::BTreeMap, process::Command, time::Duration};
use syn::visit::Visit;

const NAMES: [&str; 12] = ["Greeter", "Greet", "GreeterV2", "greeter", "ABCService", "X", "Store", "StoreAdmin", "Kv", "Echo2", "Node_Sync", "A"];
const PACKAGES: [&str; 8] = ["", "pkg", "example.helloworld", "a.b.c.d", "pkg2", "a.b", "sui", "x.y.z"];
const METHODS: [(&str, &str); 12] = [
    ("say_hello", "SayHello"), ("get", "Get"), ("get_all", "GetAll"), ("put", "put"), ("delete_item", "DeleteItem"),
    ("x", "X"), ("ping", "Ping"), ("ping2", "Ping2"), ("stream_like", "stream_like"), ("get_object", "GetObject"),
    ("send", "Send"), ("send_all", "SendAll"),
];

#[derive(Default)]
struct LitCollector(Vec<String>);
impl<'ast> Visit<'ast> for LitCollector {
    fn visit_lit_str(&mut self, l: &'ast syn::LitStr) {
        self.0.push(l.value());
    }
}

#[derive(Default)]
struct IdentCollector(Vec<String>);
impl<'ast> Visit<'ast> for IdentCollector {
    fn visit_ident(&mut self, i: &'ast syn::Ident) {
        self.0.push(i.to_string());
    }
}

#[derive(Default)]
struct MethodCalls(Vec<String>);
impl<'ast> Visit<'ast> for MethodCalls {
    fn visit_expr_method_call(&mut self, m: &'ast syn::ExprMethodCall) {
        self.0.push(m.method.to_string());
        syn::visit::visit_expr_method_call(self, m);
    }
}

/// client: method name -> route literal
fn client_routes(file: &syn::File) -> BTreeMap<String, String> {
    struct V(BTreeMap<String, String>);
    impl<'ast> Visit<'ast> for V {
        fn visit_impl_item_fn(&mut self, f: &'ast syn::ImplItemFn) {
            let mut lits = LitCollector::default();
            lits.visit_block(&f.block);
            if let Some(r) = lits.0.iter().find(|s| s.starts_with('/')) {
                self.0.insert(f.sig.ident.to_string(), r.clone());
            }
        }
    }
    let mut v = V(BTreeMap::new());
    v.visit_file(file);
    v.0
}

/// server: route literal of each match arm -> handler method it ends up invoking, and SERVICE_NAME
fn server_routes(file: &syn::File) -> (BTreeMap<String, String>, Option<String>) {
    // 1. `<X>Svc` struct -> trait method it calls
    struct SvcImpls(BTreeMap<String, String>);
    impl<'ast> Visit<'ast> for SvcImpls {
        fn visit_item_impl(&mut self, i: &'ast syn::ItemImpl) {
            if let syn::Type::Path(p) = &*i.self_ty {
                let ty = p.path.segments.last().map(|s| s.ident.to_string()).unwrap_or_default();
                if ty.ends_with("Svc") {
                    for it in &i.items {
                        if let syn::ImplItem::Fn(f) = it {
                            if f.sig.ident == "call" {
                                let mut mc = MethodCalls::default();
                                mc.visit_block(&f.block);
                                if let Some(m) = mc.0.iter().find(|m| *m != "clone" && *m != "pin") {
                                    self.0.insert(ty.clone(), m.clone());
                                }
                            }
                        }
                    }
                }
            }
            syn::visit::visit_item_impl(self, i);
        }
    }
    let mut svc = SvcImpls(BTreeMap::new());
    svc.visit_file(file);
    // 2. match arms: literal -> Svc ident used in the arm
    struct Arms(Vec<(String, Vec<String>)>);
    impl<'ast> Visit<'ast> for Arms {
        fn visit_arm(&mut self, a: &'ast syn::Arm) {
            if let syn::Pat::Lit(l) = &a.pat {
                if let syn::Lit::Str(s) = &l.lit {
                    let mut ids = IdentCollector::default();
                    ids.visit_expr(&a.body);
                    self.0.push((s.value(), ids.0));
                }
            }
            syn::visit::visit_arm(self, a);
        }
    }
    let mut arms = Arms(vec![]);
    arms.visit_file(file);
    let mut map = BTreeMap::new();
    for (lit, ids) in arms.0 {
        if let Some(svc_ident) = ids.iter().find(|i| i.ends_with("Svc")) {
            if let Some(m) = svc.0.get(svc_ident) {
                map.insert(lit, m.clone());
            }
        }
    }
    // 3. SERVICE_NAME
    struct Name(Option<String>);
    impl<'ast> Visit<'ast> for Name {
        fn visit_impl_item_const(&mut self, c: &'ast syn::ImplItemConst) {
            if c.ident == "SERVICE_NAME" {
                let mut l = LitCollector::default();
                l.visit_expr(&c.expr);
                self.0 = l.0.first().cloned();
            }
        }
    }
    let mut n = Name(None);
    n.visit_file(file);
    (map, n.0)
}

pub fn generator_scenario(idx: usize, seed: u64, defs: usize) -> ScenarioResult {
    let _ = runner::take_panics();
    let mut rng = StdRng::seed_from_u64(seed ^ 0xc17);
    let mut problems: Vec<String> = Vec::new();
    let mut sigs = std::collections::BTreeSet::new();
    let (mut n_defs, mut n_methods) = (0u64, 0u64);
    let mut sample = None;
    for _ in 0..defs {
        let name = *NAMES.choose(&mut rng).unwrap();
        let package = *PACKAGES.choose(&mut rng).unwrap();
        let k = rng.gen_range(1..=8usize);
        let chosen: Vec<&(&str, &str)> = METHODS.choose_multiple(&mut rng, k).collect();
        let mut sb = Service::builder().name(name).package(package);
        let mut ms = Vec::new();
        let mut route_names = std::collections::BTreeSet::new();
        for (m, r) in chosen {
            let route = if rng.gen_range(0..3) == 0 { *m } else { *r };
            if !route_names.insert(route) {
                continue;
            }
            let json_codec = rng.gen_bool(0.5);
            let raw = rng.gen_bool(0.25);
            sb = sb.method(
                Method::builder()
                    .name(*m)
                    .route_name(route)
                    .request_type("crate::Msg")
                    .response_type("crate::Msg")
                    .codec_path(if json_codec { "anemo::rpc::codec::JsonCodec" } else { "anemo::rpc::codec::BincodeCodec" })
                    .server_handler_return_raw_bytes(raw)
                    .build(),
            );
            ms.push((m.to_string(), route.to_string()));
        }
        let service = sb.build();
        let gen = std::panic::catch_unwind(std::panic::AssertUnwindSafe(|| {
            (anemo_build::client::generate(&service), anemo_build::server::generate(&service))
        }));
        let (client_ts, server_ts) = match gen {
            Ok(x) => x,
            Err(_) => {
                problems.push(format!("code generation panicked for service {name:?} package {package:?}: {:?}", runner::take_panics().last().map(|p| p.message.clone())));
                break;
            }
        };
        n_defs += 1;
        n_methods += ms.len() as u64;
        let cf: syn::File = match syn::parse2(client_ts) {
            Ok(f) => f,
            Err(e) => {
                problems.push(format!("generated client is not valid Rust: {e}"));
                break;
            }
        };
        let sf: syn::File = match syn::parse2(server_ts) {
            Ok(f) => f,
            Err(e) => {
                problems.push(format!("generated server is not valid Rust: {e}"));
                break;
            }
        };
        let cr = client_routes(&cf);
        let (sr, sname) = server_routes(&sf);
        let full = format!("{}{}{}", package, if package.is_empty() { "" } else { "." }, name);
        let ctx = format!("service {full:?} methods {ms:?}");
        if sname.as_deref() != Some(full.as_str()) {
            problems.push(format!("SERVICE_NAME is {sname:?}, expected {full:?} ({ctx})"));
        }
        let prefix = format!("/{}/", sname.clone().unwrap_or_default());
        // method -> route as the server sees it
        let server_by_method: BTreeMap<String, String> = sr.iter().map(|(r, m)| (m.clone(), r.clone())).collect();
        for (m, route_name) in &ms {
            let c = cr.get(m);
            let s = server_by_method.get(m);
            match (c, s) {
                (Some(c), Some(s)) => {
                    if c != s {
                        problems.push(format!("client sends {m} to {c:?} but the server dispatches {s:?} to it ({ctx})"));
                    }
                    if !c.starts_with(&prefix) {
                        problems.push(format!("route {c:?} of method {m} is not under the prefix {prefix:?} the router registers ({ctx})"));
                    }
                    if *c != format!("{prefix}{route_name}") {
                        problems.push(format!("route of method {m} is {c:?}, expected {prefix}{route_name} ({ctx})"));
                    }
                }
                _ => problems.push(format!("method {m}: client route {c:?}, server route {s:?} ({ctx})")),
            }
        }
        if cr.len() != ms.len() || sr.len() != ms.len() {
            problems.push(format!("{} client methods / {} server arms for {} methods ({ctx})", cr.len(), sr.len(), ms.len()));
        }
        let distinct: std::collections::BTreeSet<&String> = cr.values().collect();
        if distinct.len() != cr.len() {
            problems.push(format!("two methods share a route ({ctx})"));
        }
        sigs.insert(format!("pkg_depth={} methods={} name_case={}", if package.is_empty() { 0 } else { package.matches('.').count() + 1 }, ms.len().min(4), name.chars().next().map(|c| c.is_uppercase()).unwrap_or(false)));
        if sample.is_none() {
            sample = Some(json!({"level": "generator", "service": full, "client_routes": cr, "server_arms": sr, "SERVICE_NAME": sname}));
        }
        if !problems.is_empty() {
            break;
        }
    }
    let _ = idx;
    let mut r = if problems.is_empty() {
        ScenarioResult::held("generator")
    } else {
        ScenarioResult::violated(problems[0].clone(), json!({"seed": seed, "problems": problems}))
    };
    r.sample = sample;
    r.add("definitions_generated", n_defs);
    r.add("methods_cross_checked", n_methods);
    for s in sigs {
        r.add(&format!("sig:gen {s}"), 1);
    }
    r
}

pub fn execution_scenario(batch: usize, seed: u64) -> ScenarioResult {
    let dir = runner::verif_root().join("harness-codegen");
    let envs = [
        ("VERIF_SEED", seed.to_string()),
        ("VERIF_CODEGEN_BATCH", batch.to_string()),
        ("CARGO_NET_OFFLINE", "true".to_owned()),
        ("CARGO_TARGET_DIR", runner::verif_root().join("target-codegen").to_string_lossy().into_owned()),
    ];
    let build = Command::new("cargo").args(["build", "--offline"]).current_dir(&dir).envs(envs.iter().cloned()).output();
    let build = match build {
        Ok(b) => b,
        Err(e) => return ScenarioResult::inconclusive(format!("cannot run cargo: {e}")),
    };
    if !build.status.success() {
        let err = String::from_utf8_lossy(&build.stderr);
        let first: String = err.lines().filter(|l| l.starts_with("error")).take(3).collect::<Vec<_>>().join(" | ");
        // generated code that does not compile for an identifier-shaped definition is a violation
        return ScenarioResult::violated(
            format!("generated code for batch {batch} does not compile: {first}"),
            json!({"batch": batch, "seed": seed, "stderr_tail": err.lines().rev().take(30).collect::<Vec<_>>()}),
        );
    }
    let run = Command::new(runner::verif_root().join("target-codegen/debug/anemo-verif-codegen")).output();
    let run = match run {
        Ok(r) => r,
        Err(e) => return ScenarioResult::inconclusive(format!("cannot run driver: {e}")),
    };
    let doc: serde_json::Value = match serde_json::from_slice(&run.stdout) {
        Ok(d) => d,
        Err(_) => {
            return ScenarioResult::violated(
                "driver of the generated clients crashed",
                json!({"batch": batch, "stderr": String::from_utf8_lossy(&run.stderr).chars().take(2000).collect::<String>()}),
            )
        }
    };
    let mut problems: Vec<String> = Vec::new();
    if doc["panicked"] == true {
        problems.push("a generated client or server panicked".into());
    }
    let calls = doc["calls"].as_array().cloned().unwrap_or_default();
    let mut by_result: BTreeMap<String, u64> = BTreeMap::new();
    for c in &calls {
        *by_result.entry(format!("scenario{}:{}", c["scenario"], c["result"].as_str().unwrap_or("").split('(').next().unwrap_or(""))).or_default() += 1;
        for p in c["problems"].as_array().unwrap_or(&vec![]) {
            problems.push(format!("{}::{} (route name {}, raw_bytes={}, json={}), scenario {}: {}", c["service"].as_str().unwrap_or(""), c["method"].as_str().unwrap_or(""), c["route_name"], c["raw_bytes"], c["json"], c["scenario"], p.as_str().unwrap_or("")));
        }
    }
    let unrouted = doc["unrouted"].as_array().cloned().unwrap_or_default();
    for u in &unrouted {
        if u["status"] != 404 || u["handler_invocations"] != 0 {
            problems.push(format!("request to {} (no such method/service) got status {} and {} handler invocations", u["route"], u["status"], u["handler_invocations"]));
        }
    }
    let sample = json!({"level": "execution", "batch": batch, "services": doc["defs"].as_array().map(|d| d.len()), "typed_calls": calls.len(), "by_result": by_result,
        "first_service": doc["defs"][0]});
    let mut r = if problems.is_empty() {
        ScenarioResult::held(format!("execution batch {batch}")).with_sample(sample)
    } else {
        ScenarioResult::violated(problems[0].clone(), json!({"batch": batch, "seed": seed, "problems": problems.iter().take(12).collect::<Vec<_>>()}))
    };
    r.add("typed_calls_executed", calls.len() as u64);
    r.add("unrouted_requests", unrouted.len() as u64);
    r.add("compiled_batches", 1);
    for (k, v) in by_result {
        r.add(&format!("exec:{k}"), v);
    }
    r.add(&format!("sig:exec batch={batch}"), 1);
    r
}

pub fn run(ctx: &Ctx) -> i32 {
    let tier = ctx.tier;
    let n_exec = tier.pick(1, 24);
    let n_gen = tier.pick(40, 1_000);
    let cfg = RunCfg {
        property: "C17",
        tier,
        seed: ctx.seed,
        scenarios: n_exec + n_gen,
        threads: super::threads(),
        watchdog: Duration::from_secs(900),
        budget: Duration::from_secs(tier.pick(300, 2400)),
        only: ctx.only,
    };
    // the execution batches share one cargo target directory: run them one after another
    let lock = std::sync::Arc::new(std::sync::Mutex::new(()));
    let mut summary = runner::run_scenarios(&cfg, move |i, s| {
        if i < n_exec {
            let _g = lock.lock().unwrap();
            execution_scenario(i, s)
        } else {
            generator_scenario(i, s, 50)
        }
    });
    let sig_keys: Vec<String> = summary.counters.keys().filter(|k| k.starts_with("sig:")).cloned().collect();
    for k in sig_keys {
        summary.counters.remove(&k);
        summary.signatures.insert(k[4..].to_owned());
    }
    runner::finish(Report {
        property: "C17",
        tier,
        seed: ctx.seed,
        level: "exploration",
        rule: "programs = seeded service definitions (12 names incl. prefixes of one another and mixed casing, packages empty to 4 levels, 1-8 methods, route name equal to or different from the method name, Json or Bincode codec, raw-bytes option). generator level: 2k (thorough 50k) definitions through anemo_build::{client,server}::generate; the method->route map read off the client AST must equal the one read off the server's match arms (arm -> <X>Svc -> trait method), every route = '/' + SERVICE_NAME + '/' + route name, routes distinct. execution level: 1 (thorough 24) batches of 12 generated services are compiled by /verif/harness-codegen (build.rs runs anemo_build::manual::Builder) and every client method is called through Router::add_rpc_service with 12 scripted outcomes (Ok, Err(Status) of 7 codes in every shape - code only, message only, headers only, both -, response headers, raw-bytes garbage/truncated/trailing payloads, a request and a typed response that cannot be encoded, each followed by an ordinary call); the handler log must show exactly one invocation of the same-named method with the sent message, results must match the script, undecodable payloads must surface as Err(Status), unknown methods/services get NotFound; no panic".into(),
        assumptions: vec!["only definitions that produce compilable Rust are explored (identifier-shaped names); Attributes are not varied".into()],
        summary,
        extra: Default::default(),
        exhaustive: None,
        min_signatures: 6,
        required_counters: vec!["definitions_generated", "methods_cross_checked", "typed_calls_executed", "compiled_batches", "exec:scenario2:Err", "exec:scenario5:Err", "unrouted_requests"],
    })
}
