//! C12 – abandoned RPCs are cancelled remotely and leak nothing.

use super::Ctx;
use crate::{
    fabric::LinkParams,
    runner::{self, Report, RunCfg, ScenarioResult},
    world::{self, HandlerEnd, NodeCfg, RpcSpec, Script, World, NEVER},
};
use anemo::types::PeerEvent;
use rand::{rngs::StdRng, Rng, SeedableRng};
use serde_json::json;
use std::{collections::BTreeMap, sync::atomic::Ordering, time::Duration};

pub fn scenario(idx: usize, seed: u64, tier_mult: usize) -> ScenarioResult {
    runner::sim_block_on(|| async move {
        let mut w = World::new(seed);
        let mut rng = StdRng::seed_from_u64(seed ^ 0xc12);
        let lat_ms = *[2u64, 5, 10, 25].get(rng.gen_range(0..4)).unwrap();
        let lat = Duration::from_millis(lat_ms);
        let rtt_us = 2 * lat_ms * 1_000;
        let loss = if rng.gen_bool(0.3) { rng.gen_range(0.01..0.1) } else { 0.0 };
        w.fabric.set_default_link(LinkParams { latency_min: lat, latency_max: lat, loss: 0.0, dup: 0.0 });
        // every fourth scenario: the callee's service applies back-pressure (one request at a time)
        // and a long call that is not abandoned holds the slot, so abandoned requests are parked
        // waiting for service readiness when the caller gives up
        let backpressure = idx % 4 == 3;
        let limit: u64 = if backpressure { 100 } else { *[1u64, 4, 100].get(idx % 3).unwrap() };
        let mk = |w: &mut World, limit: u64, outbound_ms: Option<u64>| {
            let mut c = NodeCfg::new(w.gen_key());
            let mut q = anemo::QuicConfig::default();
            q.max_concurrent_bidi_streams = Some(limit);
            q.max_idle_timeout_ms = Some(600_000);
            q.keep_alive_interval_ms = Some(5_000);
            c.config.quic = Some(q);
            c.config.outbound_request_timeout_ms = outbound_ms;
            c
        };
        let ca = mk(&mut w, 100, None);
        let a = w.start_node(ca).unwrap();
        let mut cb = mk(&mut w, limit, None);
        if backpressure {
            cb.concurrency_limit = Some(1);
        }
        let b = w.start_node(cb).unwrap();
        if a.net.connect(b.addr).await.is_err() {
            w.close();
            return ScenarioResult::inconclusive("setup dial failed");
        }
        tokio::time::sleep(Duration::from_millis(300)).await;
        // unloaded latency of a small RPC
        let t0 = w.now();
        let (_, r) = world::rpc(&w.log, &a.net, a.idx, b.peer_id, &RpcSpec::simple(16, 1)).await;
        if r.is_err() {
            w.close();
            return ScenarioResult::inconclusive("warm-up rpc failed");
        }
        let unloaded = (w.now() - t0).max(1_000);
        w.fabric.set_default_link(LinkParams { latency_min: lat, latency_max: lat, loss, dup: 0.0 });
        let body_class = rng.gen_range(0..3);
        let (req_len, resp_len) = match body_class {
            0 => (0usize, 0u32),
            1 => (100_000, 100_000),
            _ => (2_000_000, 2_000_000),
        };
        let n_abandon = (limit as usize * *[3usize, 10, 50].get(rng.gen_range(0..3)).unwrap()).min(60 * tier_mult).max(6);
        let bound_us = if loss > 0.0 { 3_000_000 } else { 2 * rtt_us + 50_000 };
        let step_us = (rtt_us / 8).max(250);
        // span of offsets: a transfer of the body takes a number of round trips
        let span_steps: u64 = match body_class { 0 => 24, 1 => 64, _ => 160 };
        let mut problems: Vec<String> = Vec::new();
        let mut phases: BTreeMap<&'static str, u64> = BTreeMap::new();
        let mut abandoned: Vec<(u64, u64)> = Vec::new(); // (id, t_a)
        let mut sibling_tasks = Vec::new();
        let mut n_completed_before = 0u64;
        if backpressure {
            let log = w.log.clone();
            let net = a.net.clone();
            let (ai, bp) = (a.idx, b.peer_id);
            let hold = RpcSpec::simple(10, 77).with_script(Script { delay_us: 400 * rtt_us, resp_len: 10, status: 200, nhdr: 0, seed: 5 });
            sibling_tasks.push(tokio::spawn(async move { world::rpc(&log, &net, ai, bp, &hold).await }));
            tokio::time::sleep(Duration::from_micros(3 * rtt_us)).await;
        }
        let mut hows: BTreeMap<&'static str, u64> = BTreeMap::new();
        for k in 0..n_abandon {
            if !problems.is_empty() {
                break;
            }
            // what the handler does: mostly runs "forever"; sometimes answers fast with a big body so
            // that the abandonment lands in the response transfer
            let fast_handler = rng.gen_range(0..4) == 0;
            let script = Script {
                delay_us: if fast_handler { rng.gen_range(0..3) * rtt_us } else if rng.gen_bool(0.5) { NEVER } else { 120_000_000 },
                resp_len,
                status: 200,
                nhdr: 0,
                seed: 11 + k as u64,
            };
            let spec = RpcSpec { route: "/c12".into(), headers: Default::default(), body: world::gen_bytes(k as u64, req_len), script: Some(script) };
            let offset_us = if rng.gen_bool(0.7) {
                ((idx as u64 * 7 + k as u64 * 3) % span_steps) * step_us
            } else {
                rng.gen_range(0..span_steps * step_us)
            };
            // an occasional sibling that is not abandoned and must get its own answer
            if limit > 1 && rng.gen_range(0..5) == 0 && sibling_tasks.len() < (limit as usize - 1).min(8) {
                let log = w.log.clone();
                let net = a.net.clone();
                let (ai, bp) = (a.idx, b.peer_id);
                let sspec = RpcSpec::simple(rng.gen_range(0..3000), 1000 + k as u64).with_script(Script {
                    delay_us: rng.gen_range(0..40) * rtt_us,
                    resp_len: rng.gen_range(0..50_000),
                    status: 200,
                    nhdr: 2,
                    seed: 99 + k as u64,
                });
                sibling_tasks.push(tokio::spawn(async move { world::rpc(&log, &net, ai, bp, &sspec).await }));
            }
            let how = match rng.gen_range(0..3) {
                0 => "timeout-wrapper",
                1 => "select-drop",
                _ => "header-timeout",
            };
            *hows.entry(how).or_default() += 1;
            let id = w.next_id();
            let t_call = w.now();
            let completed = match how {
                "header-timeout" => {
                    let mut sp = spec.clone();
                    sp.headers.insert("timeout".into(), (offset_us.max(1) * 1_000).to_string());
                    // header deadline also reaches the server: both ends cut the request
                    let r = world::rpc_with_id(&w.log, &a.net, a.idx, b.peer_id, id, &sp).await;
                    matches!(r, Ok(ref resp) if resp.status().to_u16() == 200)
                }
                "select-drop" => {
                    let fut = world::rpc_with_id(&w.log, &a.net, a.idx, b.peer_id, id, &spec);
                    tokio::pin!(fut);
                    tokio::select! {
                        r = &mut fut => r.is_ok(),
                        _ = tokio::time::sleep(Duration::from_micros(offset_us)) => false,
                    }
                }
                _ => {
                    let fut = world::rpc_with_id(&w.log, &a.net, a.idx, b.peer_id, id, &spec);
                    matches!(tokio::time::timeout(Duration::from_micros(offset_us), fut).await, Ok(Ok(_)))
                }
            };
            let t_a = w.now();
            if completed {
                n_completed_before += 1;
                *phases.entry("P4:completed-before-abandon").or_default() += 1;
                continue;
            }
            world::log_abandon(&w.log, id);
            // classify the phase in which the abandonment landed
            {
                let g = w.log.lock();
                let st = g.starts.iter().find(|s| s.id == Some(id));
                let ph = match st {
                    None => if t_a - t_call < rtt_us / 2 { "P0:before-anything-was-sent" } else { "P1:request-in-transit" },
                    Some(s) => match &s.end {
                        None => "P2:handler-running",
                        Some(HandlerEnd::Finish(_)) => "P3:response-in-transit",
                        Some(HandlerEnd::Dropped) => "P2:handler-running",
                    },
                };
                *phases.entry(ph).or_default() += 1;
            }
            abandoned.push((id, t_a));
            // bursts: mostly back-to-back, sometimes let the cancellation settle first
            if rng.gen_range(0..4) == 0 {
                tokio::time::sleep(Duration::from_micros(bound_us)).await;
            }
        }
        // wait for the bound after the last abandonment and for the siblings
        tokio::time::sleep(Duration::from_micros(bound_us + rtt_us)).await;
        let sib = tokio::time::timeout(Duration::from_secs(600), futures::future::join_all(sibling_tasks)).await;
        if sib.is_err() {
            problems.push("a sibling rpc that was not abandoned never returned".into());
        }
        let mut n_cancelled = 0u64;
        let mut n_never_started = 0u64;
        {
            let g = w.log.lock();
            for (id, t_a) in &abandoned {
                let Some(s) = g.starts.iter().find(|s| s.id == Some(*id)) else {
                    n_never_started += 1;
                    continue;
                };
                match (&s.end, s.t_end) {
                    (Some(HandlerEnd::Finish(_)), Some(te)) => {
                        // legitimate only if it had finished before the cancellation could arrive
                        // (with injected loss the cancellation itself may be retransmitted)
                        let grace = if loss > 0.0 { bound_us } else { rtt_us / 2 + 1_000 };
                        if te > *t_a + grace {
                            problems.push(format!(
                                "handler of abandoned rpc {id} ran to completion at t={te} us although the caller gave up at t={t_a} us"
                            ));
                        }
                    }
                    (Some(HandlerEnd::Dropped), Some(te)) => {
                        n_cancelled += 1;
                        if te > *t_a + bound_us {
                            problems.push(format!(
                                "handler of abandoned rpc {id} was dropped only at t={te} us, caller gave up at t={t_a} us (bound {bound_us} us)"
                            ));
                        }
                    }
                    _ => problems.push(format!(
                        "handler of abandoned rpc {id} is still running {} us after the caller gave up (bound {bound_us} us)",
                        g.starts.iter().map(|x| x.t_start).max().unwrap_or(0).max(*t_a) - *t_a + bound_us
                    )),
                }
                if problems.len() > 5 {
                    break;
                }
            }
            let mut st = world::DeliveryStats::default();
            let dv = world::check_delivery(&g, &mut st);
            if !dv.is_empty() {
                problems.push(format!("isolation: {}", dv[0]));
            }
        }
        let live = w.log.live_handlers.load(Ordering::SeqCst);
        if live != 0 && problems.is_empty() {
            problems.push(format!("{live} handler futures still alive after every abandoned rpc's bound and all siblings returned"));
        }
        // a fresh rpc on the same connection must work promptly
        let tf = w.now();
        let fresh = tokio::time::timeout(
            // "never blocks later RPCs" is about not hanging: stream credit and flow-control credit of
            // the aborted transfers come back within a few round trips, but pacing after many aborted
            // 100 KB transfers can add tens of round trips; a leak makes the call wait for ever
            Duration::from_micros(20 * unloaded + 5_000_000),
            world::rpc(&w.log, &a.net, a.idx, b.peer_id, &RpcSpec::simple(16, 2)),
        )
        .await;
        let fresh_us = w.now() - tf;
        match fresh {
            Ok((_, Ok(_))) => {}
            Ok((_, Err(e))) => problems.push(format!("fresh rpc after {} abandoned rpcs (stream limit {limit}) failed: {e:#}", abandoned.len())),
            Err(_) => problems.push(format!(
                "fresh rpc after {} abandoned rpcs (stream limit {limit}) did not complete within 20x its unloaded latency ({unloaded} us) + 5 s",
                abandoned.len()
            )),
        }
        let lost = {
            let g = w.log.lock();
            g.events.values().flatten().filter(|e| matches!(e.ev, PeerEvent::LostPeer(..))).count()
        };
        if lost > 0 {
            problems.push("the connection was lost during the abandonment history".into());
        }
        let sample = json!({
            "scenario": idx, "seed": seed, "stream_limit": limit, "one_way_latency_ms": lat_ms, "loss": loss,
            "request_bytes": req_len, "response_bytes": resp_len, "abandoned": abandoned.len(),
            "completed_before_abandon": n_completed_before, "phases": phases, "how": hows,
            "handlers_cancelled": n_cancelled, "never_started": n_never_started,
            "unloaded_rpc_us": unloaded, "fresh_rpc_us": fresh_us, "cancel_bound_us": bound_us,
        });
        w.close();
        let res = if !problems.is_empty() {
            let mut wit = sample;
            wit["problems"] = json!(problems);
            ScenarioResult::violated(problems[0].clone(), wit)
        } else {
            ScenarioResult::held(format!(
                "limit={limit} bp={backpressure} body={body_class} lossy={} phases={:?}",
                loss > 0.0,
                phases.keys().map(|k| &k[..2]).collect::<Vec<_>>()
            ))
            .with_sample(sample)
        };
        let mut res = res
            .count("rpcs_abandoned", abandoned.len() as u64)
            .count("handlers_cancelled", n_cancelled)
            .count("abandoned_before_handler_start", n_never_started)
            .count("fresh_rpc_checks", 1)
            .count("backpressure_scenarios", backpressure as u64);
        for (k, v) in phases {
            res.add(&format!("phase:{k}"), v);
        }
        res
    })
}

pub fn run(ctx: &Ctx) -> i32 {
    let tier = ctx.tier;
    let cfg = RunCfg {
        property: "C12",
        tier,
        seed: ctx.seed,
        scenarios: tier.pick(1_800, 40_000),
        threads: super::threads(),
        watchdog: Duration::from_secs(300),
        budget: Duration::from_secs(tier.pick(100, 1000)),
        only: ctx.only,
    };
    let mult = tier.pick(1, 10);
    let summary = runner::run_scenarios(&cfg, move |i, s| scenario(i, s, mult));
    runner::finish(Report {
        property: "C12",
        tier,
        seed: ctx.seed,
        level: "fault_enumeration",
        rule: "fault = the instant at which the caller abandons an RPC, enumerated on a grid of RTT/8 steps across the whole exchange (request 0 B/100 KB/2 MB so that stream-open, request transfer, handler running, response transfer each span many steps) plus random offsets; three ways of abandoning (timeout wrapper, select+drop, timeout header); histories of 3x/10x/50x the callee's stream limit (1,4,100) abandoned RPCs interleaved with siblings that are not abandoned; oracle = handler start/finish/drop log (dropped within 2 RTT + 50 ms, never finishes later), live-handler gauge 0 afterwards, fresh RPC within 20x unloaded latency, no LostPeer, sibling responses intact; distinct by (stream limit, body class, loss, set of phases hit)".into(),
        assumptions: vec!["promptness is relative to the simulated RTT; with injected loss the bound is 3 s".into()],
        summary,
        extra: Default::default(),
        exhaustive: None,
        min_signatures: 8,
        required_counters: vec!["rpcs_abandoned", "backpressure_scenarios", "handlers_cancelled", "phase:P1:request-in-transit", "phase:P2:handler-running", "phase:P3:response-in-transit", "phase:P4:completed-before-abandon"],
    })
}
