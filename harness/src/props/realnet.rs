//! E2 stress: real Networks on UDP loopback and a multi-threaded runtime (true parallelism in the
//! request path and between the connection manager, the connection handlers and API callers).
//! One workload, two oracles: the C02 delivery oracle over the call/start/finish history, and the
//! C04 drain-list-drain oracle run by subscriber threads against `Network::{subscribe, peers}`.

use crate::{
    runner::ScenarioResult,
    world::{self, HarnessService, Log, RpcSpec, Script},
};
use anemo::{types::PeerEvent, Network, PeerId};
use rand::{rngs::StdRng, Rng, SeedableRng};
use serde_json::json;
use std::{
    collections::BTreeSet,
    sync::{
        atomic::{AtomicBool, AtomicU64, Ordering},
        Arc, Mutex,
    },
    time::{Duration, Instant},
};

#[derive(Clone, Copy, PartialEq, Eq)]
pub enum Judge {
    Delivery,
    ChangeLog,
}

pub fn scenario(idx: usize, seed: u64, millis: u64, judge: Judge) -> ScenarioResult {
    let mut rng = StdRng::seed_from_u64(seed ^ 0xe2e2);
    let rt = tokio::runtime::Builder::new_multi_thread().worker_threads(6).enable_all().build().unwrap();
    let log = Log::new();
    let n = 3usize;
    let nets: Vec<Network> = {
        let _g = rt.enter();
        (0..n)
            .map(|i| {
                let (svc, _) = HarnessService::new(i, log.clone());
                let mut key = [0u8; 32];
                rng.fill(&mut key);
                let mut cfg = anemo::Config::default();
                cfg.peer_event_broadcast_channel_capacity = Some(1 << 16);
                cfg.connect_timeout_ms = Some(2_000);
                cfg.shutdown_idle_timeout_ms = Some(500);
                Network::bind("127.0.0.1:0").config(cfg).server_name("verif").private_key(key).start(svc).unwrap()
            })
            .collect()
    };
    let ids: Vec<(PeerId, std::net::SocketAddr)> = nets.iter().map(|x| (x.peer_id(), x.local_addr())).collect();
    let stop = Arc::new(AtomicBool::new(false));
    let problems: Arc<Mutex<Vec<String>>> = Default::default();
    let samples = Arc::new(AtomicU64::new(0));
    let events_seen = Arc::new(AtomicU64::new(0));
    // subscriber threads (C04 oracle)
    let mut subs = Vec::new();
    for (i, net) in nets.iter().enumerate() {
        for s in 0..2 {
            let (net, stop, problems, samples, events_seen) = (net.clone(), stop.clone(), problems.clone(), samples.clone(), events_seen.clone());
            subs.push(std::thread::spawn(move || {
                let Ok((mut rx, snap)) = net.subscribe() else { return };
                let mut state: BTreeSet<PeerId> = snap.iter().copied().collect();
                let apply = |state: &mut BTreeSet<PeerId>, e: &PeerEvent| -> Result<(), String> {
                    match e {
                        PeerEvent::NewPeer(p) => if !state.insert(*p) { return Err("NewPeer for a peer already present".into()) },
                        PeerEvent::LostPeer(p, _) => if !state.remove(p) { return Err("LostPeer for a peer not present".into()) },
                    }
                    Ok(())
                };
                let mut last_round = false;
                loop {
                    if stop.load(Ordering::SeqCst) {
                        if last_round {
                            return;
                        }
                        last_round = true;
                    }
                    macro_rules! drain {
                        ($on_each:expr) => {
                            loop {
                                match rx.try_recv() {
                                    Ok(e) => {
                                        events_seen.fetch_add(1, Ordering::Relaxed);
                                        if let Err(m) = apply(&mut state, &e) {
                                            problems.lock().unwrap().push(format!("network {i} subscriber {s}: {m} (events do not alternate)"));
                                            return;
                                        }
                                        $on_each
                                    }
                                    Err(tokio::sync::broadcast::error::TryRecvError::Empty) => break,
                                    Err(_) => return, // lagged or closed: this history is over
                                }
                            }
                        };
                    }
                    drain!({});
                    let listing = net.peers();
                    let lset: BTreeSet<PeerId> = listing.iter().copied().collect();
                    if lset.len() != listing.len() {
                        problems.lock().unwrap().push(format!("network {i}: duplicates in peers()"));
                        return;
                    }
                    let mut matched = lset == state;
                    drain!({
                        if state == lset {
                            matched = true;
                        }
                    });
                    samples.fetch_add(1, Ordering::Relaxed);
                    if !matched {
                        problems.lock().unwrap().push(format!(
                            "network {i} subscriber {s}: peers() returned {} entries that no prefix of the event stream up to that moment reproduces",
                            lset.len()
                        ));
                        return;
                    }
                    std::thread::sleep(Duration::from_micros(300));
                }
            }));
        }
    }
    // churn + rpc load
    let rpc_ok = Arc::new(AtomicU64::new(0));
    let rpc_total = Arc::new(AtomicU64::new(0));
    let churn = Arc::new(AtomicU64::new(0));
    let t0 = Instant::now();
    rt.block_on(async {
        let mut hs = Vec::new();
        for i in 0..n {
            // connection churn
            let (net, ids_c, stop_c, churn) = (nets[i].clone(), ids.clone(), stop.clone(), churn.clone());
            let mut r = StdRng::seed_from_u64(seed ^ (i as u64) << 4);
            hs.push(tokio::spawn(async move {
                let (ids, stop) = (ids_c, stop_c);
                while !stop.load(Ordering::Relaxed) {
                    let (p, a) = ids[r.gen_range(0..ids.len())];
                    if p == net.peer_id() {
                        tokio::task::yield_now().await;
                        continue;
                    }
                    match r.gen_range(0..10) {
                        0..=5 => {
                            let _ = net.connect(a).await;
                        }
                        6 => {
                            let _ = net.connect_with_peer_id(a, p).await;
                        }
                        _ => {
                            if judge == Judge::ChangeLog || r.gen_range(0..6) == 0 {
                                let _ = net.disconnect(p);
                            }
                        }
                    }
                    churn.fetch_add(1, Ordering::Relaxed);
                    tokio::time::sleep(Duration::from_micros(r.gen_range(0..if judge == Judge::ChangeLog { 400 } else { 20_000 }))).await;
                }
            }));
            // rpc generators
            for g in 0..6 {
                let (net, ids, stop, log, rpc_ok, rpc_total) = (nets[i].clone(), ids.clone(), stop.clone(), log.clone(), rpc_ok.clone(), rpc_total.clone());
                let mut r = StdRng::seed_from_u64(seed ^ ((i * 16 + g) as u64) << 12);
                hs.push(tokio::spawn(async move {
                    let mut inflight = futures::stream::FuturesUnordered::new();
                    use futures::StreamExt;
                    while !stop.load(Ordering::Relaxed) {
                        let (p, _) = ids[r.gen_range(0..ids.len())];
                        if p == net.peer_id() {
                            continue;
                        }
                        let spec = RpcSpec {
                            route: format!("/r{}", r.gen::<u16>()),
                            headers: super::c02::gen_headers(&mut r, 8),
                            body: world::gen_bytes(r.gen(), super::c02::gen_size(&mut r, 200_000)),
                            script: Some(Script { delay_us: r.gen_range(0..2_000), resp_len: super::c02::gen_size(&mut r, 200_000) as u32, status: 200, nhdr: r.gen_range(0..4), seed: r.gen::<u64>() | 1 }),
                        };
                        let (log2, net2) = (log.clone(), net.clone());
                        inflight.push(async move { world::rpc(&log2, &net2, i, p, &spec).await.1.is_ok() });
                        rpc_total.fetch_add(1, Ordering::Relaxed);
                        if inflight.len() >= 24 {
                            if let Some(ok) = inflight.next().await {
                                if ok {
                                    rpc_ok.fetch_add(1, Ordering::Relaxed);
                                } else {
                                    // not connected at the moment: do not spin (and do not fill the log)
                                    tokio::time::sleep(Duration::from_millis(3)).await;
                                }
                            }
                        }
                        if rpc_total.load(Ordering::Relaxed) > 40_000 {
                            break;
                        }
                    }
                    while let Some(ok) = tokio::time::timeout(Duration::from_secs(10), inflight.next()).await.ok().flatten() {
                        if ok {
                            rpc_ok.fetch_add(1, Ordering::Relaxed);
                        }
                    }
                }));
            }
        }
        tokio::time::sleep(Duration::from_millis(millis)).await;
        stop.store(true, Ordering::SeqCst);
        for h in hs {
            let _ = tokio::time::timeout(Duration::from_secs(20), h).await;
        }
        for net in &nets {
            let _ = tokio::time::timeout(Duration::from_secs(5), net.shutdown()).await;
        }
    });
    for s in subs {
        let _ = s.join();
    }
    drop(rt);
    let mut problems = problems.lock().unwrap().clone();
    let mut stats = world::DeliveryStats::default();
    if judge == Judge::Delivery {
        let g = log.lock();
        problems.extend(world::check_delivery(&g, &mut stats).into_iter().take(5));
    }
    let sample = json!({"kind": "real-socket multi-thread stress", "scenario": idx, "seed": seed, "wall_ms": t0.elapsed().as_millis() as u64,
        "networks": n, "worker_threads": 6, "rpcs": rpc_total.load(Ordering::SeqCst), "rpcs_ok": rpc_ok.load(Ordering::SeqCst),
        "churn_ops": churn.load(Ordering::SeqCst), "drain_list_drain_samples": samples.load(Ordering::SeqCst), "events": events_seen.load(Ordering::SeqCst)});
    let r = if !problems.is_empty() {
        let mut w = sample;
        w["problems"] = json!(problems);
        ScenarioResult::violated(problems[0].clone(), w)
    } else if rpc_ok.load(Ordering::SeqCst) == 0 {
        ScenarioResult::inconclusive("no rpc succeeded in the real-socket stress")
    } else {
        ScenarioResult::held("realnet stress").with_sample(sample)
    };
    r.count("realnet_rpcs", rpc_total.load(Ordering::SeqCst))
        .count("realnet_rpcs_ok", rpc_ok.load(Ordering::SeqCst))
        .count("realnet_churn_ops", churn.load(Ordering::SeqCst))
        .count("realnet_drain_list_drain_samples", samples.load(Ordering::SeqCst))
        .count("realnet_events", events_seen.load(Ordering::SeqCst))
}

/// C05 on real sockets: two Networks on UDP loopback and a multi-threaded runtime dial each other
/// at the same moment (released by a barrier, optional sub-millisecond skew), round after round.
/// The interleavings of the two handshakes, of the registrations in both connection managers and
/// of the loser's close notification are whatever 4 worker threads and the kernel produce.
/// Judged per round (bounded progress, never a single wall-clock deadline: a state counts as wrong
/// only if it stays wrong and unchanged for 5 s): both list each other exactly once, the events per
/// side alternate starting with NewPeer, RPCs succeed in both directions, and nothing more happens
/// for the pair during a quiet window.
pub fn mutual_scenario(idx: usize, seed: u64, rounds: usize) -> ScenarioResult {
    let mut rng = StdRng::seed_from_u64(seed ^ 0x5e2);
    let rt = tokio::runtime::Builder::new_multi_thread().worker_threads(4).enable_all().build().unwrap();
    let log = Log::new();
    let nets: Vec<Network> = {
        let _g = rt.enter();
        (0..2)
            .map(|i| {
                let (svc, _) = HarnessService::new(i, log.clone());
                let mut key = [0u8; 32];
                rng.fill(&mut key);
                let mut cfg = anemo::Config::default();
                cfg.peer_event_broadcast_channel_capacity = Some(1 << 14);
                cfg.connect_timeout_ms = Some(5_000);
                cfg.shutdown_idle_timeout_ms = Some(500);
                Network::bind("127.0.0.1:0").config(cfg).server_name("verif").private_key(key).start(svc).unwrap()
            })
            .collect()
    };
    let (a, b) = (nets[0].clone(), nets[1].clone());
    let (ida, idb) = (a.peer_id(), b.peer_id());
    let (adda, addb) = (a.local_addr(), b.local_addr());
    let mut problems: Vec<String> = Vec::new();
    let (mut done, mut both_ok, mut events_total, mut flaps) = (0u64, 0u64, 0u64, 0u64);
    let mut seqs: BTreeSet<String> = BTreeSet::new();
    let t0 = Instant::now();
    rt.block_on(async {
        let (mut rxa, _) = a.subscribe().unwrap();
        let (mut rxb, _) = b.subscribe().unwrap();
        for round in 0..rounds {
            let gate = Arc::new(tokio::sync::Barrier::new(2));
            let skew_a = Duration::from_micros(if rng.gen_bool(0.5) { 0 } else { rng.gen_range(0..800) });
            let mut skew_b = Duration::from_micros(if rng.gen_bool(0.5) { 0 } else { rng.gen_range(0..800) });
            let mut skew_a = skew_a;
            if round == 1 {
                // one round per scenario in REAL seconds: the second dial completes 2-3 s after the
                // first (code that reads the wall clock - connection ages, caches with a time to
                // live - cannot be reached by the virtual-time scenarios)
                let late = Duration::from_millis(rng.gen_range(2_100..3_000));
                // (which side is late - the lesser or the greater identity - alternates with the scenario)
                let a_is_lesser = ida < idb;
                if (idx % 2 == 0) == a_is_lesser { skew_a = late } else { skew_b = late }
            }
            let pin = rng.gen_bool(0.3);
            let (a2, b2, g1, g2) = (a.clone(), b.clone(), gate.clone(), gate.clone());
            let ha = tokio::spawn(async move {
                g1.wait().await;
                if !skew_a.is_zero() {
                    tokio::time::sleep(skew_a).await;
                }
                if pin { a2.connect_with_peer_id(addb, idb).await } else { a2.connect(addb).await }
            });
            let hb = tokio::spawn(async move {
                g2.wait().await;
                if !skew_b.is_zero() {
                    tokio::time::sleep(skew_b).await;
                }
                b2.connect(adda).await
            });
            let ra = ha.await.unwrap();
            let rb = hb.await.unwrap();
            done += 1;
            if let (Ok(x), Ok(y)) = (&ra, &rb) {
                both_ok += 1;
                if *x != idb || *y != ida {
                    problems.push(format!("round {round}: a dial returned the wrong identity"));
                    break;
                }
            }
            // settle: wait until the listings are right; wrong-and-unchanged for 5 s is a verdict
            let want = |n: &Network, p: PeerId| n.peers() == vec![p];
            let mut last_change = Instant::now();
            let mut last = (a.peers(), b.peers());
            let settled = loop {
                if want(&a, idb) && want(&b, ida) {
                    break true;
                }
                tokio::time::sleep(Duration::from_millis(2)).await;
                let now = (a.peers(), b.peers());
                if now != last {
                    last = now;
                    last_change = Instant::now();
                }
                if last_change.elapsed() > Duration::from_secs(5) {
                    break false;
                }
            };
            if !settled {
                if ra.is_ok() || rb.is_ok() {
                    problems.push(format!(
                        "round {round}: after a simultaneous mutual dial (results {:?}/{:?}) the listings stayed at A:{} B:{} entries for 5 s instead of one entry each",
                        ra.as_ref().map(|_| "ok").map_err(|e| format!("{e:#}").chars().take(60).collect::<String>()),
                        rb.as_ref().map(|_| "ok").map_err(|e| format!("{e:#}").chars().take(60).collect::<String>()),
                        last.0.len(), last.1.len()
                    ));
                    break;
                }
                continue; // both dials failed (load): nothing to judge in this round
            }
            // RPCs in both directions over whatever connection survived (a request that raced the
            // loser's close may fail once; a second failure on a settled pair is the verdict)
            for (n, i, p) in [(&a, 0usize, idb), (&b, 1usize, ida)] {
                let mut ok = false;
                for _ in 0..3 {
                    let r = tokio::time::timeout(Duration::from_secs(20), world::rpc(&log, n, i, p, &RpcSpec::simple(64, round as u64))).await;
                    if matches!(r, Ok((_, Ok(_)))) {
                        ok = true;
                        break;
                    }
                    tokio::time::sleep(Duration::from_millis(20)).await;
                }
                if !ok {
                    problems.push(format!("round {round}: RPCs from side {i} fail three times in a row although both sides list each other"));
                }
            }
            // quiet window, then the event sequences of this round
            tokio::time::sleep(Duration::from_millis(rng.gen_range(5..40))).await;
            for (name, rx, other) in [("A", &mut rxa, idb), ("B", &mut rxb, ida)] {
                let mut seq = String::new();
                let alternating = |seq: &str| seq.chars().enumerate().all(|(i, c)| c == if i % 2 == 0 { 'N' } else { 'L' }) && seq.len() % 2 == 1;
                // a replacement publishes LostPeer and NewPeer back to back: a drain that lands between
                // the two sends sees an even-length prefix, so an unfinished sequence is re-read a
                // few times before it is judged
                for attempt in 0..50 {
                    loop {
                        match rx.try_recv() {
                            Ok(PeerEvent::NewPeer(p)) if p == other => seq.push('N'),
                            Ok(PeerEvent::LostPeer(p, _)) if p == other => seq.push('L'),
                            Ok(_) => seq.push('?'),
                            Err(tokio::sync::broadcast::error::TryRecvError::Empty) => break,
                            Err(_) => {
                                seq.push('!');
                                break;
                            }
                        }
                    }
                    if alternating(&seq) || seq.contains('!') || seq.contains('?') {
                        break;
                    }
                    tokio::time::sleep(Duration::from_millis(if attempt < 10 { 2 } else { 100 })).await;
                }
                events_total += seq.len() as u64;
                // alternating, starting and ending with NewPeer: N, NLN (replacement), ...
                if !alternating(&seq) {
                    problems.push(format!("round {round}: side {name} saw the event sequence {seq:?} for the pair (must alternate NewPeer/LostPeer and end connected)"));
                }
                if seq.len() > 3 {
                    flaps += 1;
                }
                seqs.insert(format!("{name}:{seq}"));
            }
            {
                let mut last_change = Instant::now();
                let mut last = (a.peers(), b.peers());
                loop {
                    if want(&a, idb) && want(&b, ida) {
                        break;
                    }
                    tokio::time::sleep(Duration::from_millis(2)).await;
                    let now = (a.peers(), b.peers());
                    if now != last {
                        last = now;
                        last_change = Instant::now();
                    }
                    if last_change.elapsed() > Duration::from_secs(5) {
                        problems.push(format!("round {round}: the pair did not stay connected after converging (A lists {}, B lists {} for 5 s)", last.0.len(), last.1.len()));
                        break;
                    }
                }
            }
            if !problems.is_empty() {
                break;
            }
            // tear the pair down for the next round: one side disconnects, both must end empty
            let _ = if rng.gen_bool(0.5) { a.disconnect(idb) } else { b.disconnect(ida) };
            let mut last_change = Instant::now();
            let mut last = (a.peers(), b.peers());
            loop {
                if last.0.is_empty() && last.1.is_empty() {
                    break;
                }
                tokio::time::sleep(Duration::from_millis(1)).await;
                let now = (a.peers(), b.peers());
                if now != last {
                    last = now;
                    last_change = Instant::now();
                }
                if last_change.elapsed() > Duration::from_secs(5) {
                    // (C09's concern, not C05's: reported there; here just start over cleanly)
                    let _ = a.disconnect(idb);
                    let _ = b.disconnect(ida);
                    tokio::time::sleep(Duration::from_millis(50)).await;
                    break;
                }
            }
            // drain the LostPeer events of the tear-down
            tokio::time::sleep(Duration::from_millis(2)).await;
            while rxa.try_recv().is_ok() {}
            while rxb.try_recv().is_ok() {}
        }
        for n in [&a, &b] {
            let _ = tokio::time::timeout(Duration::from_secs(5), n.shutdown()).await;
        }
    });
    drop(rt);
    let sample = json!({"kind": "real-socket simultaneous mutual dials", "scenario": idx, "seed": seed, "rounds": done, "both_dials_ok": both_ok,
        "wall_ms": t0.elapsed().as_millis() as u64, "event_sequences_seen": seqs, "rounds_with_more_than_one_replacement": flaps});
    let r = if !problems.is_empty() {
        let mut w = sample;
        w["problems"] = json!(problems);
        ScenarioResult::violated(problems[0].clone(), w)
    } else if both_ok == 0 {
        ScenarioResult::inconclusive("no real-socket mutual dial completed on both sides")
    } else {
        ScenarioResult::held(format!("realnet mutual seqs={}", seqs.len())).with_sample(sample)
    };
    r.count("realnet_mutual_rounds", done).count("realnet_mutual_both_ok", both_ok).count("realnet_mutual_events", events_total)
}
