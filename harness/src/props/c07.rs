//! C07 – wire format: exact layout, lossless round trip, total decoder.

use super::Ctx;
use crate::{
    refmodel::wire as refwire,
    runner::{self, Report, RunCfg, ScenarioResult},
    world::gen_bytes,
};
use anemo::{types::response::StatusCode, Request, Response};
use bytes::Bytes;
use rand::{rngs::StdRng, seq::SliceRandom, Rng, SeedableRng};
use serde_json::json;
use std::{
    collections::BTreeMap,
    pin::Pin,
    task::{Context, Poll},
    time::Duration,
};
use tokio::io::{AsyncRead, ReadBuf};
use tokio_util::codec::{FramedRead, FramedWrite};

/// An AsyncRead over a byte string that hands out seeded chunk sizes (1 byte at a time, random).
pub struct ChunkReader {
    data: Vec<u8>,
    pos: usize,
    mode: u8,
    x: u64,
}

impl ChunkReader {
    pub fn new(data: Vec<u8>, mode: u8, seed: u64) -> Self {
        Self { data, pos: 0, mode, x: seed | 1 }
    }
}

impl AsyncRead for ChunkReader {
    fn poll_read(mut self: Pin<&mut Self>, _cx: &mut Context<'_>, buf: &mut ReadBuf<'_>) -> Poll<std::io::Result<()>> {
        let left = self.data.len() - self.pos;
        if left == 0 {
            return Poll::Ready(Ok(()));
        }
        let want = match self.mode {
            0 => left,
            1 => 1,
            _ => {
                self.x ^= self.x << 13;
                self.x ^= self.x >> 7;
                self.x ^= self.x << 17;
                1 + (self.x % 97) as usize
            }
        };
        let n = want.min(left).min(buf.remaining());
        let p = self.pos;
        buf.put_slice(&self.data[p..p + n]);
        self.pos += n;
        Poll::Ready(Ok(()))
    }
}

#[derive(Clone)]
struct Marker(#[allow(dead_code)] &'static str);
const MARKER_TEXT: &str = "EXTENSION-MARKER-c07-must-not-travel";

fn rt() -> tokio::runtime::Runtime {
    tokio::runtime::Builder::new_current_thread().build().unwrap()
}

pub fn encode_request(route: &str, headers: &[(String, String)], body: &Bytes) -> Result<Vec<u8>, String> {
    let mut req = Request::new(body.clone()).with_route(route.to_owned()).with_extension(Marker(MARKER_TEXT));
    for (k, v) in headers {
        req.headers_mut().insert(k.clone(), v.clone());
    }
    let cfg = anemo::Config::default();
    let mut out: Vec<u8> = Vec::new();
    rt().block_on(async {
        let mut fw = FramedWrite::new(&mut out, anemo::verif::wire::network_message_frame_codec(&cfg));
        anemo::verif::wire::write_request(&mut fw, req).await.map_err(|e| format!("{e:#}"))
    })?;
    Ok(out)
}

pub fn encode_response(status: StatusCode, headers: &[(String, String)], body: &Bytes) -> Result<Vec<u8>, String> {
    let mut resp = Response::new(body.clone()).with_status(status).with_extension(Marker(MARKER_TEXT));
    for (k, v) in headers {
        resp.headers_mut().insert(k.clone(), v.clone());
    }
    let cfg = anemo::Config::default();
    let mut out: Vec<u8> = Vec::new();
    rt().block_on(async {
        let mut fw = FramedWrite::new(&mut out, anemo::verif::wire::network_message_frame_codec(&cfg));
        anemo::verif::wire::write_response(&mut fw, resp).await.map_err(|e| format!("{e:#}"))
    })?;
    Ok(out)
}

type DecReq = (u16, String, BTreeMap<String, String>, Vec<u8>, bool);
type DecResp = (u16, u16, BTreeMap<String, String>, Vec<u8>, bool);

/// Ok(Ok(v)) decoded, Ok(Err(e)) rejected, Err(p) panicked.
pub fn decode_request(bytes: &[u8], mode: u8) -> Result<Result<DecReq, String>, String> {
    let data = bytes.to_vec();
    let r = std::panic::catch_unwind(move || {
        let cfg = anemo::Config::default();
        rt().block_on(async {
            let mut fr = FramedRead::new(ChunkReader::new(data, mode, 99), anemo::verif::wire::network_message_frame_codec(&cfg));
            anemo::verif::wire::read_request(&mut fr).await.map(|r| {
                let ext_empty = r.extensions().is_empty();
                (
                    r.version().to_u16(),
                    r.route().to_owned(),
                    r.headers().iter().map(|(k, v)| (k.clone(), v.clone())).collect(),
                    r.body().to_vec(),
                    ext_empty,
                )
            }).map_err(|e| format!("{e:#}"))
        })
    });
    r.map_err(|_| format!("{:?}", runner::take_panics().last().map(|p| (p.message.clone(), runner::norm_location(&p.location)))))
}

pub fn decode_response(bytes: &[u8], mode: u8) -> Result<Result<DecResp, String>, String> {
    let data = bytes.to_vec();
    let r = std::panic::catch_unwind(move || {
        let cfg = anemo::Config::default();
        rt().block_on(async {
            let mut fr = FramedRead::new(ChunkReader::new(data, mode, 77), anemo::verif::wire::network_message_frame_codec(&cfg));
            anemo::verif::wire::read_response(&mut fr).await.map(|r| {
                let ext_empty = r.extensions().is_empty();
                (
                    r.version().to_u16(),
                    r.status().to_u16(),
                    r.headers().iter().map(|(k, v)| (k.clone(), v.clone())).collect(),
                    r.body().to_vec(),
                    ext_empty,
                )
            }).map_err(|e| format!("{e:#}"))
        })
    });
    r.map_err(|_| format!("{:?}", runner::take_panics().last().map(|p| (p.message.clone(), runner::norm_location(&p.location)))))
}

fn as_map(v: &[(String, String)]) -> BTreeMap<String, String> {
    v.iter().cloned().collect() // last wins, like a HashMap filled in order
}

fn gen_route(rng: &mut StdRng) -> String {
    match rng.gen_range(0..9) {
        0 => String::new(),
        1 => "/".into(),
        2 => "r".repeat(if super::miri() { 300 } else { rng.gen_range(1_000..70_000) }),
        3 => "/путь/日本/🦀".into(),
        4 => "/nul\0inside".into(),
        5 | 6 => {
            // 1-4 byte UTF-8 sequences with a wide character across every byte offset < 300
            let sweep = rng.gen_range(0..4096);
            super::c06::hostile_text(rng, sweep, "/")
        }
        _ => format!("/svc.{}/M{}", rng.gen::<u16>(), rng.gen::<u8>()),
    }
}

fn gen_headers(rng: &mut StdRng) -> Vec<(String, String)> {
    let n = match rng.gen_range(0..10) {
        0..=2 => 0,
        3..=5 => 1,
        6..=8 => rng.gen_range(2..20),
        _ => rng.gen_range(20..=256),
    };
    let mut v: Vec<(String, String)> = Vec::new();
    for i in 0..n {
        let k = match rng.gen_range(0..8) {
            0 if !v.iter().any(|(k, _)| k.is_empty()) => String::new(),
            1 => format!("Key-{i}"),
            2 => format!("ключ{i}"),
            _ => format!("k{i}"),
        };
        let val = match rng.gen_range(0..6) {
            0 => String::new(),
            1 => "v".repeat(rng.gen_range(1..3_000)),
            _ => format!("{}", rng.gen::<u64>()),
        };
        if !v.iter().any(|(kk, _)| *kk == k) {
            v.push((k, val));
        }
    }
    // the header names the library itself gives a meaning to, carrying values it would not have
    // produced: on the wire they are ordinary entries of the map and must round-trip untouched
    for name in ["timeout", "content-type", "status-message"] {
        if rng.gen_range(0..6) == 0 && !v.iter().any(|(k, _)| k == name) {
            let val = match rng.gen_range(0..8) {
                0 => String::new(),
                1 => "soon".to_owned(),
                2 => "-1".to_owned(),
                3 => "1.5s".to_owned(),
                4 => "18446744073709551616".to_owned(),
                5 => " 42 ".to_owned(),
                6 => "é日本".to_owned(),
                _ => rng.gen::<u64>().to_string(),
            };
            v.push((name.to_owned(), val));
        }
    }
    v
}

fn bucket(n: usize) -> &'static str {
    match n {
        0 => "0",
        1..=255 => "<256",
        256..=65_535 => "<64k",
        _ => ">=64k",
    }
}

pub fn scenario(idx: usize, seed: u64, msgs: usize) -> ScenarioResult {
    let _ = runner::take_panics();
    let mut rng = StdRng::seed_from_u64(seed ^ 0xc07);
    let mut problems: Vec<String> = Vec::new();
    let mut counters: BTreeMap<String, u64> = BTreeMap::new();
    let mut sigs: std::collections::BTreeSet<String> = Default::default();
    let mut sample = None;
    let mut bump = |c: &mut BTreeMap<String, u64>, k: &str, n: u64| *c.entry(k.to_owned()).or_default() += n;
    for m in 0..msgs {
        if !problems.is_empty() {
            break;
        }
        let is_req = rng.gen_bool(0.5);
        let headers = gen_headers(&mut rng);
        let body_len = match rng.gen_range(0..12) {
            0 => 0,
            1..=6 => rng.gen_range(1..300),
            7..=9 if !super::miri() => rng.gen_range(300..70_000),
            10 if !super::miri() => rng.gen_range(70_000..2_000_000),
            // sizes at and around powers of two up to 4 MiB, and one between 4 and 8 MiB (internal
            // thresholds - buffer sizes, fast paths - sit there)
            11 if !super::miri() && rng.gen_range(0..5) == 0 => {
                let k = *[16u32, 20, 21, 22].choose(&mut rng).unwrap();
                match rng.gen_range(0..4) {
                    0 => (1usize << k) - 1,
                    1 => 1usize << k,
                    2 => (1usize << k) + 1,
                    _ => rng.gen_range((4usize << 20)..(8usize << 20) - 4096),
                }
            }
            _ => 1,
        };
        let body = gen_bytes(seed ^ m as u64, body_len);
        let route = gen_route(&mut rng);
        let status = *refwire::VALID_STATUS.choose(&mut rng).unwrap();
        let bytes = if is_req {
            encode_request(&route, &headers, &body)
        } else {
            encode_response(StatusCode::new(status).unwrap(), &headers, &body)
        };
        let bytes = match bytes {
            Ok(b) => b,
            Err(e) => {
                problems.push(format!("encoder failed on a valid message: {e}"));
                break;
            }
        };
        bump(&mut counters, "messages_encoded", 1);
        sigs.insert(format!("{} hdr={} body={} {}", if is_req { "req" } else { "resp" }, bucket(headers.len() * 40), bucket(body_len), if is_req { 0 } else { status }));
        // ---- layout: independent parser must consume the bytes exactly and agree on every field
        if is_req {
            match refwire::parse_request(&bytes, usize::MAX, false, true) {
                Ok(p) => {
                    if p.version != 1 || p.route != route || as_map(&p.headers) != as_map(&headers) || p.headers.len() != headers.len() || p.body != body.as_ref() {
                        problems.push(format!("encoded request does not parse back to the original under the established layout (route {:?}, {} headers, {} B)", route.chars().take(20).collect::<String>(), headers.len(), body_len));
                    }
                }
                Err(e) => problems.push(format!("encoded request violates the established layout: {e}")),
            }
            if headers.len() <= 1 && bytes != refwire::encode_request(&route, &headers, &body) {
                problems.push("encoded request differs byte-for-byte from the reference encoding".into());
            }
        } else {
            match refwire::parse_response(&bytes, usize::MAX, false, true) {
                Ok(p) => {
                    if p.version != 1 || p.status != status || as_map(&p.headers) != as_map(&headers) || p.headers.len() != headers.len() || p.body != body.as_ref() {
                        problems.push(format!("encoded response does not parse back to the original under the established layout (status {status}, {} headers, {} B)", headers.len(), body_len));
                    }
                }
                Err(e) => problems.push(format!("encoded response violates the established layout: {e}")),
            }
            if headers.len() <= 1 && bytes != refwire::encode_response(status, &headers, &body) {
                problems.push("encoded response differs byte-for-byte from the reference encoding".into());
            }
        }
        if bytes.windows(MARKER_TEXT.len()).any(|w| w == MARKER_TEXT.as_bytes()) {
            problems.push("a local extension travelled on the wire".into());
        }
        // ---- round trip, with three read patterns
        for mode in 0..3u8 {
            if is_req {
                match decode_request(&bytes, mode) {
                    Ok(Ok((v, r, h, b, ext_empty))) => {
                        if v != 1 || r != route || h != as_map(&headers) || b != body.as_ref() {
                            problems.push(format!("request round trip altered the message (read pattern {mode})"));
                        }
                        if !ext_empty {
                            problems.push("decoded request carries extensions".into());
                        }
                    }
                    Ok(Err(e)) => problems.push(format!("decoder rejected a message the encoder produced (read pattern {mode}): {e}")),
                    Err(p) => problems.push(format!("decoder panicked on a valid request: {p}")),
                }
            } else {
                match decode_response(&bytes, mode) {
                    Ok(Ok((v, s, h, b, ext_empty))) => {
                        if v != 1 || s != status || h != as_map(&headers) || b != body.as_ref() {
                            problems.push(format!("response round trip altered the message (read pattern {mode})"));
                        }
                        if !ext_empty {
                            problems.push("decoded response carries extensions".into());
                        }
                    }
                    Ok(Err(e)) => problems.push(format!("decoder rejected a message the encoder produced (read pattern {mode}): {e}")),
                    Err(p) => problems.push(format!("decoder panicked on a valid response: {p}")),
                }
            }
            bump(&mut counters, "round_trips", 1);
        }
        // ---- totality: strict prefixes (all of them for small messages, a seeded sample otherwise)
        let cuts: Vec<usize> = if super::miri() {
            (0..bytes.len()).step_by(bytes.len() / 12 + 1).collect()
        } else if bytes.len() <= 600 {
            (0..bytes.len()).collect()
        } else {
            let mut c: Vec<usize> = (0..40).collect();
            c.extend((0..60).map(|_| rng.gen_range(0..bytes.len())));
            c.extend(bytes.len() - 20..bytes.len());
            // the structural boundaries: end of preamble, of the header length, of the header frame,
            // of the body length, first body byte
            if bytes.len() > 12 {
                let hlen = u32::from_be_bytes([bytes[8], bytes[9], bytes[10], bytes[11]]) as usize;
                for b in [8, 11, 12, 12 + hlen - 1, 12 + hlen, 12 + hlen + 1, 12 + hlen + 3, 12 + hlen + 4, 12 + hlen + 5] {
                    if b < bytes.len() {
                        c.push(b);
                    }
                }
            }
            c
        };
        for cut in cuts {
            let r = if is_req { decode_request(&bytes[..cut], (cut % 3) as u8).map(|r| r.map(|_| ())) } else { decode_response(&bytes[..cut], (cut % 3) as u8).map(|r| r.map(|_| ())) };
            bump(&mut counters, "prefixes_tried", 1);
            match r {
                Ok(Err(_)) => {}
                Ok(Ok(())) => problems.push(format!("strict prefix ({cut} of {} bytes) of a valid message was decoded as a message", bytes.len())),
                Err(p) => problems.push(format!("decoder panicked on a {cut}-byte prefix: {p}")),
            }
        }
        // ---- targeted rejections
        let mut bad = bytes.clone();
        let k = rng.gen_range(0..5);
        bad[k] ^= 1 << rng.gen_range(0..8);
        let mut bad_ver = bytes.clone();
        let ver: u16 = loop {
            let v: u16 = rng.gen();
            if v != 1 {
                break v;
            }
        };
        bad_ver[5..7].copy_from_slice(&ver.to_be_bytes());
        let mut bad_res = bytes.clone();
        bad_res[7] = rng.gen_range(1..=255);
        for (what, b) in [("preamble", &bad), ("version", &bad_ver), ("reserved byte", &bad_res)] {
            let r = if is_req { decode_request(b, 0).map(|r| r.map(|_| ())) } else { decode_response(b, 0).map(|r| r.map(|_| ())) };
            bump(&mut counters, "targeted_rejections", 1);
            match r {
                Ok(Err(_)) => {}
                Ok(Ok(())) => problems.push(format!("message with a wrong {what} was accepted")),
                Err(p) => problems.push(format!("decoder panicked on a wrong {what}: {p}")),
            }
        }
        if !is_req {
            // unknown status codes
            for _ in 0..(if super::miri() { 1 } else { 8 }) {
                let st: u16 = loop {
                    let s: u16 = rng.gen();
                    if !refwire::VALID_STATUS.contains(&s) {
                        break s;
                    }
                };
                let b = refwire::encode_response(st, &headers[..headers.len().min(2)], &body[..body.len().min(50)]);
                bump(&mut counters, "targeted_rejections", 1);
                match decode_response(&b, 0) {
                    Ok(Err(_)) => {}
                    Ok(Ok(_)) => problems.push(format!("response with unknown status {st} was accepted")),
                    Err(p) => problems.push(format!("decoder panicked on status {st}: {p}")),
                }
            }
        }
        // ---- mutated / arbitrary bytes: no panic, and Ok only if the reference parser agrees
        for t in 0..(if super::miri() { 3 } else { 12 }) {
            let mut b = if t < 9 { bytes[..bytes.len().min(4_000)].to_vec() } else { (0..rng.gen_range(0..400)).map(|_| rng.gen()).collect::<Vec<u8>>() };
            if t < 9 && !b.is_empty() {
                if bytes.len() > 4_000 {
                    // keep the frame structure consistent for the shortened copy: re-encode small
                    b = if is_req { refwire::encode_request(&route.chars().take(50).collect::<String>(), &headers[..headers.len().min(3)], &body[..body.len().min(100)]) } else { refwire::encode_response(status, &headers[..headers.len().min(3)], &body[..body.len().min(100)]) };
                }
                for _ in 0..rng.gen_range(1..4) {
                    let i = rng.gen_range(0..b.len());
                    match rng.gen_range(0..3) {
                        0 => b[i] = rng.gen(),
                        1 => b[i] ^= 1 << rng.gen_range(0..8),
                        _ => {
                            // length-field edits
                            let j = 8.min(b.len() - 1);
                            b[j] = rng.gen_range(0..3);
                        }
                    }
                }
            }
            bump(&mut counters, "hostile_inputs", 1);
            if is_req {
                let refp = refwire::parse_request(&b, 8 << 20, true, false);
                match decode_request(&b, (t % 3) as u8) {
                    Err(p) => problems.push(format!("decoder panicked on hostile bytes: {p}; input {}", hex::encode(&b[..b.len().min(64)]))),
                    Ok(Ok((_, r, h, bd, _))) => {
                        bump(&mut counters, "hostile_inputs_accepted", 1);
                        match refp {
                            Ok(p) if p.route == r && as_map(&p.headers) == h && p.body == bd => {}
                            other => problems.push(format!("decoder accepted bytes the layout does not describe that way (reference: {:?}); input {}", other.map(|p| p.route).map_err(|e| e), hex::encode(&b[..b.len().min(64)]))),
                        }
                    }
                    Ok(Err(_)) => {
                        if refp.is_ok() {
                            problems.push(format!("decoder rejected bytes that are a complete valid request under the layout; input {}", hex::encode(&b[..b.len().min(64)])));
                        }
                    }
                }
            } else {
                let refp = refwire::parse_response(&b, 8 << 20, true, false);
                match decode_response(&b, (t % 3) as u8) {
                    Err(p) => problems.push(format!("decoder panicked on hostile bytes: {p}; input {}", hex::encode(&b[..b.len().min(64)]))),
                    Ok(Ok((_, s, h, bd, _))) => {
                        bump(&mut counters, "hostile_inputs_accepted", 1);
                        match refp {
                            Ok(p) if p.status == s && as_map(&p.headers) == h && p.body == bd => {}
                            other => problems.push(format!("decoder accepted bytes the layout does not describe that way (reference: {:?}); input {}", other.map(|p| p.status), hex::encode(&b[..b.len().min(64)]))),
                        }
                    }
                    Ok(Err(_)) => {
                        if refp.is_ok() {
                            problems.push(format!("decoder rejected bytes that are a complete valid response under the layout; input {}", hex::encode(&b[..b.len().min(64)])));
                        }
                    }
                }
            }
        }
        if sample.is_none() && bytes.len() < 200 {
            sample = Some(json!({"kind": if is_req {"request"} else {"response"}, "route": route, "status": status, "headers": headers, "body_len": body_len, "bytes_hex": hex::encode(&bytes)}));
        }
    }
    let _ = idx;
    let mut r = if problems.is_empty() {
        ScenarioResult::held(sigs.iter().next().cloned().unwrap_or_default())
    } else {
        ScenarioResult::violated(problems[0].clone(), json!({"scenario": idx, "seed": seed, "problems": problems.iter().take(10).collect::<Vec<_>>()}))
    };
    r.sample = sample;
    r.counters = counters;
    // pass all signatures through the counters channel
    for s in sigs {
        r.add(&format!("sig:{s}"), 1);
    }
    r
}

// ------------------------------------------------------------------------------------------------
// golden vectors

fn golden_dir() -> std::path::PathBuf {
    runner::verif_root().join("golden")
}

fn golden_messages() -> Vec<serde_json::Value> {
    let mut v = Vec::new();
    let bodies: [&[u8]; 4] = [b"", b"x", b"The Way of Kings", &[0u8, 255, 1, 254, 2, 253]];
    let mut i = 0;
    for (route, headers) in [
        ("/", vec![]),
        ("/example.helloworld.Greeter/SayHello", vec![("content-type", "bincode")]),
        ("", vec![("timeout", "30000000000")]),
        ("/путь", vec![("k", "")]),
    ] {
        v.push(json!({"kind": "request", "route": route, "headers": headers, "body_hex": hex::encode(bodies[i % 4])}));
        i += 1;
    }
    for st in refwire::VALID_STATUS {
        v.push(json!({"kind": "response", "status": st, "headers": if st == 429 { vec![("wait-nanos", "12345")] } else { vec![] }, "body_hex": hex::encode(bodies[i % 4])}));
        i += 1;
    }
    v
}

pub fn write_golden() -> i32 {
    let dir = golden_dir();
    std::fs::create_dir_all(&dir).unwrap();
    let mut index = Vec::new();
    for (i, m) in golden_messages().into_iter().enumerate() {
        let headers: Vec<(String, String)> = m["headers"].as_array().unwrap().iter().map(|p| (p[0].as_str().unwrap().to_owned(), p[1].as_str().unwrap().to_owned())).collect();
        let body = Bytes::from(hex::decode(m["body_hex"].as_str().unwrap()).unwrap());
        let bytes = if m["kind"] == "request" {
            encode_request(m["route"].as_str().unwrap(), &headers, &body).unwrap()
        } else {
            encode_response(StatusCode::new(m["status"].as_u64().unwrap() as u16).unwrap(), &headers, &body).unwrap()
        };
        let name = format!("msg_{i:02}.bin");
        std::fs::write(dir.join(&name), &bytes).unwrap();
        let mut e = m.clone();
        e["file"] = json!(name);
        index.push(e);
    }
    std::fs::write(dir.join("index.json"), serde_json::to_string_pretty(&index).unwrap()).unwrap();
    println!("wrote {} golden vectors to {}", index.len(), dir.display());
    0
}

pub fn golden_scenario() -> ScenarioResult {
    let dir = golden_dir();
    let idx: Vec<serde_json::Value> = match std::fs::read_to_string(dir.join("index.json")) {
        Ok(s) => serde_json::from_str(&s).unwrap(),
        Err(_) => return ScenarioResult::inconclusive("golden vectors missing"),
    };
    let mut problems = Vec::new();
    let mut n = 0u64;
    for m in &idx {
        let bytes = std::fs::read(dir.join(m["file"].as_str().unwrap())).unwrap();
        let headers: Vec<(String, String)> = m["headers"].as_array().unwrap().iter().map(|p| (p[0].as_str().unwrap().to_owned(), p[1].as_str().unwrap().to_owned())).collect();
        let body = hex::decode(m["body_hex"].as_str().unwrap()).unwrap();
        n += 1;
        if m["kind"] == "request" {
            let route = m["route"].as_str().unwrap();
            match decode_request(&bytes, 1) {
                Ok(Ok((1, r, h, b, _))) if r == route && h == as_map(&headers) && b == body => {}
                other => problems.push(format!("pinned request vector {} no longer decodes to its recorded value: {:?}", m["file"], other.map(|x| x.map(|y| (y.1, y.2.len(), y.3.len()))))),
            }
            match encode_request(route, &headers, &Bytes::from(body.clone())) {
                Ok(b) if b == bytes => {}
                _ => problems.push(format!("encoder no longer reproduces pinned request vector {}", m["file"])),
            }
        } else {
            let st = m["status"].as_u64().unwrap() as u16;
            match decode_response(&bytes, 1) {
                Ok(Ok((1, s, h, b, _))) if s == st && h == as_map(&headers) && b == body => {}
                other => problems.push(format!("pinned response vector {} no longer decodes to its recorded value: {:?}", m["file"], other.map(|x| x.map(|y| (y.1, y.2.len(), y.3.len()))))),
            }
            match encode_response(StatusCode::new(st).unwrap(), &headers, &Bytes::from(body.clone())) {
                Ok(b) if b == bytes => {}
                _ => problems.push(format!("encoder no longer reproduces pinned response vector {}", m["file"])),
            }
        }
    }
    let r = if problems.is_empty() {
        ScenarioResult::held("golden vectors")
    } else {
        ScenarioResult::violated(problems[0].clone(), json!({"problems": problems}))
    };
    r.count("golden_vectors_checked", n)
}

pub fn run(ctx: &Ctx) -> i32 {
    if ctx.args.iter().any(|a| a == "--write-golden") {
        return write_golden();
    }
    let tier = ctx.tier;
    let cfg = RunCfg {
        property: "C07",
        tier,
        seed: ctx.seed,
        scenarios: if super::miri() { 2 } else { 1 + tier.pick(160, 8_000) },
        threads: super::threads(),
        watchdog: Duration::from_secs(if super::miri() { 3_000 } else { 300 }),
        budget: Duration::from_secs(tier.pick(100, 900)),
        only: ctx.only,
    };
    let msgs = if super::miri() { 2 } else { tier.pick(60, 120) };
    let mut summary = runner::run_scenarios(&cfg, move |i, s| if i == 0 { golden_scenario() } else { scenario(i, s, msgs) });
    // signatures were passed through counters
    let sig_keys: Vec<String> = summary.counters.keys().filter(|k| k.starts_with("sig:")).cloned().collect();
    for k in sig_keys {
        summary.counters.remove(&k);
        summary.signatures.insert(k[4..].to_owned());
    }
    runner::finish(Report {
        property: "C07",
        tier,
        seed: ctx.seed,
        level: "exploration",
        rule: "per scenario 60-120 seeded messages (requests and responses; routes empty/long/non-ASCII/NUL; 0-256 headers incl. empty key/value; bodies 0 B-2 MB; all 8 status codes) through the real encoders/decoders over in-memory streams read whole, 1 byte at a time and in random chunks; oracle = independent hand-written parser/encoder of the established layout (exact consumption, field equality, byte equality for <=1 header), pinned golden byte vectors, round-trip equality with empty extensions and an extension marker that must not appear on the wire, every strict prefix rejected (all prefixes of messages <= 600 B, a seeded sample otherwise), wrong preamble/version/reserved byte/unknown status rejected, mutated and random bytes never panic and are accepted only if the reference parser yields the same value; distinct by (kind, header bucket, body bucket, status) Body sizes also sit at and around powers of two up to 4 MiB and between 4 and 8 MiB; routes include hostile text (1-4 byte UTF-8 across byte offsets); prefixes of large messages are cut at every structural boundary in addition to the sample.".into(),
        assumptions: vec!["only Version::V1 exists; bincode's free-function configuration (fixint, trailing bytes allowed in the header frame) is mirrored by the reference parser".into()],
        summary,
        extra: Default::default(),
        exhaustive: None,
        min_signatures: 12,
        required_counters: vec!["messages_encoded", "round_trips", "prefixes_tried", "targeted_rejections", "hostile_inputs", "golden_vectors_checked"],
    })
}
