pub mod adversary;
pub mod fabric;
pub mod props;
pub mod refmodel;
pub mod runner;
pub mod world;
