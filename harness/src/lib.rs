pub mod fabric;
pub mod props;
pub mod runner;
pub mod world;
