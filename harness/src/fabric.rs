//! In-memory datagram fabric: a replacement for the UDP layer under quinn, driven by tokio's
//! (paused, virtual) clock.  Latency, loss, duplication, reordering (through independent random
//! latencies), partitions, scripted drop rules and a tap that records every datagram.
//!
//! One fabric belongs to one scenario and is used from one OS thread (a `current_thread`
//! runtime); the locks exist because quinn requires `Send + Sync`.

use rand::{rngs::StdRng, Rng, SeedableRng};
use std::{
    cmp::Reverse,
    collections::{BinaryHeap, HashMap, HashSet, VecDeque},
    fmt,
    io::{self, IoSliceMut},
    net::SocketAddr,
    pin::Pin,
    sync::{Arc, Mutex},
    task::{Context, Poll, Waker},
    time::Duration,
};
use tokio::time::Instant;

#[derive(Clone, Copy, Debug)]
pub struct LinkParams {
    pub latency_min: Duration,
    pub latency_max: Duration,
    pub loss: f64,
    pub dup: f64,
}

impl Default for LinkParams {
    fn default() -> Self {
        Self {
            latency_min: Duration::from_millis(1),
            latency_max: Duration::from_millis(1),
            loss: 0.0,
            dup: 0.0,
        }
    }
}

impl LinkParams {
    pub fn fixed(lat: Duration) -> Self {
        Self {
            latency_min: lat,
            latency_max: lat,
            loss: 0.0,
            dup: 0.0,
        }
    }
}

/// What the tap keeps of one datagram.
#[derive(Clone, Debug)]
pub struct TapRecord {
    pub t_us: u64,
    pub src: SocketAddr,
    pub dst: SocketAddr,
    pub len: usize,
    /// QUIC long-header packet type (0 Initial, 1 0-RTT, 2 Handshake, 3 Retry) of the first packet
    /// in the datagram, `None` for short headers.
    pub long_type: Option<u8>,
    pub dcid: Vec<u8>,
    pub scid: Vec<u8>,
    pub fate: Fate,
}

#[derive(Clone, Copy, Debug, PartialEq, Eq)]
pub enum Fate {
    Delivered,
    Lost,
    Partitioned,
    NoSuchHost,
    RuleDropped,
}

#[derive(Default, Clone, Debug, serde::Serialize)]
pub struct FabricStats {
    pub sent: u64,
    pub delivered: u64,
    pub lost: u64,
    pub duplicated: u64,
    pub partitioned: u64,
    pub no_such_host: u64,
    pub rule_dropped: u64,
    pub bytes: u64,
}

pub type DropPredicate = Box<dyn FnMut(&TapRecord) -> bool + Send>;

struct DropRule {
    remaining: usize,
    pred: DropPredicate,
}

struct InFlight {
    at: Instant,
    seq: u64,
    src: SocketAddr,
    dst: SocketAddr,
    data: Vec<u8>,
}

impl PartialEq for InFlight {
    fn eq(&self, o: &Self) -> bool {
        self.at == o.at && self.seq == o.seq
    }
}
impl Eq for InFlight {}
impl PartialOrd for InFlight {
    fn partial_cmp(&self, o: &Self) -> Option<std::cmp::Ordering> {
        Some(self.cmp(o))
    }
}
impl Ord for InFlight {
    fn cmp(&self, o: &Self) -> std::cmp::Ordering {
        (self.at, self.seq).cmp(&(o.at, o.seq))
    }
}

struct SockState {
    addr: SocketAddr,
    queue: Mutex<VecDeque<(SocketAddr, Vec<u8>)>>,
    waker: Mutex<Option<Waker>>,
}

struct Inner {
    rng: StdRng,
    t0: Instant,
    sockets: HashMap<SocketAddr, Arc<SockState>>,
    default_link: LinkParams,
    links: HashMap<(SocketAddr, SocketAddr), LinkParams>,
    /// Directed pairs that are cut.
    cuts: HashSet<(SocketAddr, SocketAddr)>,
    /// Addresses that are completely isolated (both directions).
    isolated: HashSet<SocketAddr>,
    rules: Vec<DropRule>,
    heap: BinaryHeap<Reverse<InFlight>>,
    seq: u64,
    tap_enabled: bool,
    tap: Vec<TapRecord>,
    stats: FabricStats,
    closed: bool,
}

#[derive(Clone)]
pub struct Fabric {
    inner: Arc<Mutex<Inner>>,
    notify: Arc<tokio::sync::Notify>,
}

impl Fabric {
    pub fn new(seed: u64) -> Self {
        Self {
            inner: Arc::new(Mutex::new(Inner {
                rng: StdRng::seed_from_u64(seed ^ 0xfab1c),
                t0: Instant::now(),
                sockets: HashMap::new(),
                default_link: LinkParams::default(),
                links: HashMap::new(),
                cuts: HashSet::new(),
                isolated: HashSet::new(),
                rules: Vec::new(),
                heap: BinaryHeap::new(),
                seq: 0,
                tap_enabled: false,
                tap: Vec::new(),
                stats: FabricStats::default(),
                closed: false,
            })),
            notify: Arc::new(tokio::sync::Notify::new()),
        }
    }

    /// Must be called inside the scenario's runtime: starts the delivery task.
    pub fn start(&self) {
        let fabric = self.clone();
        tokio::spawn(async move { fabric.pump().await });
    }

    async fn pump(&self) {
        loop {
            // deliver everything that is due, then sleep until the next datagram or a wake-up
            let next = {
                let mut g = self.inner.lock().unwrap();
                if g.closed {
                    return;
                }
                let now = Instant::now();
                let mut to_wake = Vec::new();
                while let Some(Reverse(top)) = g.heap.peek() {
                    if top.at > now {
                        break;
                    }
                    let Reverse(d) = g.heap.pop().unwrap();
                    if let Some(sock) = g.sockets.get(&d.dst).cloned() {
                        sock.queue.lock().unwrap().push_back((d.src, d.data));
                        g.stats.delivered += 1;
                        to_wake.push(sock);
                    } else {
                        g.stats.no_such_host += 1;
                    }
                }
                let next = g.heap.peek().map(|Reverse(d)| d.at);
                drop(g);
                for s in to_wake {
                    if let Some(w) = s.waker.lock().unwrap().take() {
                        w.wake();
                    }
                }
                next
            };
            match next {
                Some(at) => {
                    tokio::select! {
                        _ = tokio::time::sleep_until(at) => {}
                        _ = self.notify.notified() => {}
                    }
                }
                None => self.notify.notified().await,
            }
        }
    }

    pub fn close(&self) {
        let mut g = self.inner.lock().unwrap();
        g.closed = true;
        g.heap.clear();
        g.sockets.clear();
        g.rules.clear();
        drop(g);
        self.notify.notify_one();
    }

    pub fn now_us(&self) -> u64 {
        let g = self.inner.lock().unwrap();
        Instant::now().duration_since(g.t0).as_micros() as u64
    }

    pub fn set_default_link(&self, p: LinkParams) {
        self.inner.lock().unwrap().default_link = p;
    }

    pub fn set_link(&self, src: SocketAddr, dst: SocketAddr, p: LinkParams) {
        self.inner.lock().unwrap().links.insert((src, dst), p);
    }

    pub fn clear_links(&self) {
        self.inner.lock().unwrap().links.clear();
    }

    /// Cut one direction.
    pub fn cut(&self, src: SocketAddr, dst: SocketAddr) {
        self.inner.lock().unwrap().cuts.insert((src, dst));
    }

    pub fn partition(&self, a: SocketAddr, b: SocketAddr) {
        let mut g = self.inner.lock().unwrap();
        g.cuts.insert((a, b));
        g.cuts.insert((b, a));
    }

    pub fn heal(&self, a: SocketAddr, b: SocketAddr) {
        let mut g = self.inner.lock().unwrap();
        g.cuts.remove(&(a, b));
        g.cuts.remove(&(b, a));
    }

    pub fn isolate(&self, a: SocketAddr) {
        self.inner.lock().unwrap().isolated.insert(a);
    }

    pub fn unisolate(&self, a: SocketAddr) {
        self.inner.lock().unwrap().isolated.remove(&a);
    }

    pub fn heal_all(&self) {
        let mut g = self.inner.lock().unwrap();
        g.cuts.clear();
        g.isolated.clear();
    }

    /// Drop the next `count` datagrams for which `pred` returns true.
    pub fn add_drop_rule(&self, count: usize, pred: DropPredicate) {
        self.inner.lock().unwrap().rules.push(DropRule {
            remaining: count,
            pred,
        });
    }

    pub fn clear_drop_rules(&self) {
        self.inner.lock().unwrap().rules.clear();
    }

    pub fn enable_tap(&self, on: bool) {
        self.inner.lock().unwrap().tap_enabled = on;
    }

    pub fn take_tap(&self) -> Vec<TapRecord> {
        std::mem::take(&mut self.inner.lock().unwrap().tap)
    }

    pub fn tap_len(&self) -> usize {
        self.inner.lock().unwrap().tap.len()
    }

    pub fn tap_since(&self, idx: usize) -> Vec<TapRecord> {
        self.inner.lock().unwrap().tap[idx..].to_vec()
    }

    pub fn stats(&self) -> FabricStats {
        self.inner.lock().unwrap().stats.clone()
    }

    pub fn in_flight(&self) -> usize {
        self.inner.lock().unwrap().heap.len()
    }

    pub fn is_attached(&self, addr: SocketAddr) -> bool {
        self.inner.lock().unwrap().sockets.contains_key(&addr)
    }

    /// Create a socket at `addr`.  `keepalive` is an object kept alive as long as the socket (the
    /// real UDP socket whose port reserves the address).
    pub fn socket(
        &self,
        addr: SocketAddr,
        keepalive: Option<std::net::UdpSocket>,
    ) -> Arc<SimSocket> {
        let state = Arc::new(SockState {
            addr,
            queue: Mutex::new(VecDeque::new()),
            waker: Mutex::new(None),
        });
        self.inner
            .lock()
            .unwrap()
            .sockets
            .insert(addr, state.clone());
        Arc::new(SimSocket {
            fabric: self.clone(),
            state,
            _keepalive: keepalive,
        })
    }

    fn send(&self, src: SocketAddr, dst: SocketAddr, data: &[u8]) {
        let mut g = self.inner.lock().unwrap();
        if g.closed {
            return;
        }
        let now = Instant::now();
        g.stats.sent += 1;
        g.stats.bytes += data.len() as u64;

        let mut rec = parse_tap(data);
        rec.t_us = now.duration_since(g.t0).as_micros() as u64;
        rec.src = src;
        rec.dst = dst;

        let mut fate = Fate::Delivered;
        if g.isolated.contains(&src) || g.isolated.contains(&dst) || g.cuts.contains(&(src, dst)) {
            fate = Fate::Partitioned;
            g.stats.partitioned += 1;
        }
        if fate == Fate::Delivered {
            let mut hit = false;
            for rule in g.rules.iter_mut() {
                if rule.remaining > 0 && (rule.pred)(&rec) {
                    rule.remaining -= 1;
                    hit = true;
                    break;
                }
            }
            g.rules.retain(|r| r.remaining > 0);
            if hit {
                fate = Fate::RuleDropped;
                g.stats.rule_dropped += 1;
            }
        }
        let params = g
            .links
            .get(&(src, dst))
            .copied()
            .unwrap_or(g.default_link);
        if fate == Fate::Delivered && params.loss > 0.0 && g.rng.gen_bool(params.loss.min(1.0)) {
            fate = Fate::Lost;
            g.stats.lost += 1;
        }
        if fate == Fate::Delivered && !g.sockets.contains_key(&dst) {
            // unreachable address: silently dropped, like UDP into the void
            fate = Fate::NoSuchHost;
            g.stats.no_such_host += 1;
        }
        rec.fate = fate;
        if g.tap_enabled {
            g.tap.push(rec);
        }
        if fate != Fate::Delivered {
            return;
        }
        let copies = if params.dup > 0.0 && g.rng.gen_bool(params.dup.min(1.0)) {
            g.stats.duplicated += 1;
            2
        } else {
            1
        };
        for _ in 0..copies {
            let lat = if params.latency_max > params.latency_min {
                let lo = params.latency_min.as_micros() as u64;
                let hi = params.latency_max.as_micros() as u64;
                Duration::from_micros(g.rng.gen_range(lo..=hi))
            } else {
                params.latency_min
            };
            g.seq += 1;
            let seq = g.seq;
            g.heap.push(Reverse(InFlight {
                at: now + lat,
                seq,
                src,
                dst,
                data: data.to_vec(),
            }));
        }
        drop(g);
        self.notify.notify_one();
    }

    fn detach(&self, state: &Arc<SockState>) {
        let mut g = self.inner.lock().unwrap();
        if let Some(cur) = g.sockets.get(&state.addr) {
            if Arc::ptr_eq(cur, state) {
                g.sockets.remove(&state.addr);
            }
        }
    }
}

fn parse_tap(data: &[u8]) -> TapRecord {
    let mut rec = TapRecord {
        t_us: 0,
        src: "0.0.0.0:0".parse().unwrap(),
        dst: "0.0.0.0:0".parse().unwrap(),
        len: data.len(),
        long_type: None,
        dcid: Vec::new(),
        scid: Vec::new(),
        fate: Fate::Delivered,
    };
    if data.len() >= 7 && data[0] & 0x80 != 0 {
        rec.long_type = Some((data[0] & 0x30) >> 4);
        let dl = data[5] as usize;
        if data.len() > 6 + dl {
            rec.dcid = data[6..6 + dl].to_vec();
            let sl = data[6 + dl] as usize;
            if data.len() >= 7 + dl + sl {
                rec.scid = data[7 + dl..7 + dl + sl].to_vec();
            }
        }
    }
    rec
}

pub struct SimSocket {
    fabric: Fabric,
    state: Arc<SockState>,
    _keepalive: Option<std::net::UdpSocket>,
}

impl SimSocket {
    pub fn addr(&self) -> SocketAddr {
        self.state.addr
    }
}

impl fmt::Debug for SimSocket {
    fn fmt(&self, f: &mut fmt::Formatter<'_>) -> fmt::Result {
        write!(f, "SimSocket({})", self.state.addr)
    }
}

impl Drop for SimSocket {
    fn drop(&mut self) {
        self.fabric.detach(&self.state);
    }
}

#[derive(Debug)]
struct AlwaysWritable;

impl quinn::UdpPoller for AlwaysWritable {
    fn poll_writable(self: Pin<&mut Self>, _cx: &mut Context) -> Poll<io::Result<()>> {
        Poll::Ready(Ok(()))
    }
}

impl quinn::AsyncUdpSocket for SimSocket {
    fn create_io_poller(self: Arc<Self>) -> Pin<Box<dyn quinn::UdpPoller>> {
        Box::pin(AlwaysWritable)
    }

    fn try_send(&self, transmit: &quinn::udp::Transmit) -> io::Result<()> {
        let seg = transmit.segment_size.unwrap_or(transmit.contents.len()).max(1);
        for chunk in transmit.contents.chunks(seg) {
            self.fabric
                .send(self.state.addr, transmit.destination, chunk);
        }
        Ok(())
    }

    fn poll_recv(
        &self,
        cx: &mut Context,
        bufs: &mut [IoSliceMut<'_>],
        meta: &mut [quinn::udp::RecvMeta],
    ) -> Poll<io::Result<usize>> {
        let mut q = self.state.queue.lock().unwrap();
        let mut n = 0;
        while n < bufs.len() && n < meta.len() {
            let Some((src, data)) = q.pop_front() else {
                break;
            };
            let len = data.len().min(bufs[n].len());
            bufs[n][..len].copy_from_slice(&data[..len]);
            let mut m = quinn::udp::RecvMeta::default();
            m.addr = src;
            m.len = len;
            m.stride = len;
            m.ecn = None;
            m.dst_ip = None;
            meta[n] = m;
            n += 1;
        }
        if n > 0 {
            return Poll::Ready(Ok(n));
        }
        *self.state.waker.lock().unwrap() = Some(cx.waker().clone());
        Poll::Pending
    }

    fn local_addr(&self) -> io::Result<SocketAddr> {
        Ok(self.state.addr)
    }

    fn max_transmit_segments(&self) -> usize {
        1
    }

    fn max_receive_segments(&self) -> usize {
        1
    }

    fn may_fragment(&self) -> bool {
        false
    }
}
