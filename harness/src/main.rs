use anemo_verif::{props, runner};

fn main() {
    let args: Vec<String> = std::env::args().collect();
    if args.len() < 2 {
        eprintln!("usage: vcheck <C01..C20> [--tier quick|thorough] [--seed N] [--only IDX]");
        std::process::exit(2);
    }
    let prop = args[1].clone();
    // The real code runs in a child process: an abort (allocation failure on an attacker-chosen
    // length, stack overflow, ...) cannot be caught in-process, and it must become a verdict line
    // of this check instead of silently killing it.  Not under Miri (no process spawning) and not
    // for the processes this binary spawns itself.
    if !cfg!(miri) && !args.iter().any(|a| a == "--child" || a == "--trial") {
        std::process::exit(supervise(&prop, &args[1..]));
    }
    if args.iter().any(|a| a == "--child") {
        // a supervised child never outlives its supervisor
        let parent = std::os::unix::process::parent_id();
        std::thread::spawn(move || loop {
            std::thread::sleep(std::time::Duration::from_secs(1));
            if std::os::unix::process::parent_id() != parent {
                std::process::exit(2);
            }
        });
    }
    let args: Vec<String> = args.into_iter().filter(|a| a != "--child").collect();
    let mut tier = match std::env::var("VERIF_TIER").as_deref() {
        Ok("thorough") => runner::Tier::Thorough,
        _ => runner::Tier::Quick,
    };
    let mut seed: u64 = std::env::var("VERIF_SEED")
        .ok()
        .and_then(|s| s.parse::<i64>().ok())
        .map(|s| s as u64)
        .unwrap_or(1);
    let mut only: Option<usize> = None;
    let mut rest = Vec::new();
    let mut i = 2;
    while i < args.len() {
        match args[i].as_str() {
            "--tier" => {
                tier = if args[i + 1] == "thorough" {
                    runner::Tier::Thorough
                } else {
                    runner::Tier::Quick
                };
                i += 1;
            }
            "--seed" => {
                seed = args[i + 1].parse::<i64>().expect("seed") as u64;
                i += 1;
            }
            "--replay" => {
                // re-execute the scenario recorded in a witness file (same seed, same index)
                let doc: serde_json::Value = serde_json::from_str(
                    &std::fs::read_to_string(&args[i + 1]).expect("replay file"),
                )
                .expect("replay file is json");
                seed = doc["seed"].as_u64().unwrap_or(seed);
                only = doc["scenario"].as_u64().map(|x| x as usize);
                if doc["tier"].as_str() == Some("thorough") {
                    tier = runner::Tier::Thorough;
                }
                println!("replaying {} scenario {:?} seed {}: recorded '{}'", prop, only, seed, doc["what"].as_str().unwrap_or(""));
                i += 1;
            }
            "--only" => {
                only = Some(args[i + 1].parse().expect("idx"));
                i += 1;
            }
            other => rest.push(other.to_owned()),
        }
        i += 1;
    }
    // error values must not capture backtraces (cost, and noise in witnesses)
    std::env::set_var("RUST_LIB_BACKTRACE", "0");
    runner::install_panic_hook();
    let code = props::dispatch(&prop, tier, seed, only, &rest);
    std::process::exit(code);
}

/// Runs this binary again as a child, forwards its output, and turns an abnormal death into a
/// verdict: an abort after "memory allocation of N bytes failed" with an absurd N (>= 2^36, more
/// than this machine has) is a crash of the code under test on the input it was given (VIOLATION);
/// any other abnormal death (killed, other signals) is a harness error, never a verdict.
fn supervise(prop: &str, args: &[String]) -> i32 {
    use std::io::{BufRead, BufReader};
    use std::process::{Command, Stdio};
    let exe = std::env::current_exe().expect("current_exe");
    let mut child = Command::new(exe).args(args).arg("--child").stderr(Stdio::piped()).spawn().expect("spawn child");
    let err = child.stderr.take().unwrap();
    let tail = std::sync::Arc::new(std::sync::Mutex::new(std::collections::VecDeque::<String>::new()));
    let t2 = tail.clone();
    let reader = std::thread::spawn(move || {
        for line in BufReader::new(err).split(b'\n').map_while(Result::ok) {
            let line = String::from_utf8_lossy(&line).into_owned();
            eprintln!("{line}");
            let mut t = t2.lock().unwrap();
            t.push_back(line);
            if t.len() > 60 {
                t.pop_front();
            }
        }
    });
    let status = child.wait().expect("wait child");
    let _ = reader.join();
    if let Some(c) = status.code() {
        return c;
    }
    let tail: Vec<String> = tail.lock().unwrap().iter().cloned().collect();
    let absurd_alloc = tail.iter().rev().find_map(|l| {
        let rest = l.split("memory allocation of ").nth(1)?;
        let n: u128 = rest.split(' ').next()?.parse().ok()?;
        (n >= 1u128 << 36).then_some(n)
    });
    let root = std::env::var("VERIF_ROOT").unwrap_or_else(|_| "/verif".into());
    let path = format!("{root}/replays/{prop}-abort.json");
    let _ = std::fs::create_dir_all(format!("{root}/replays"));
    let doc = serde_json::json!({"property": prop, "args": args, "child_status": format!("{status:?}"), "stderr_tail": tail});
    let _ = std::fs::write(&path, serde_json::to_string_pretty(&doc).unwrap());
    match absurd_alloc {
        Some(n) => {
            println!("VIOLATION property={prop} replay={path} -- the process running the code under test aborted: memory allocation of {n} bytes failed (a length taken from the input was trusted)");
            1
        }
        None => {
            println!("HARNESS-ERROR property={prop} the check's child process died abnormally ({status:?}); see {path}");
            2
        }
    }
}
