use anemo_verif::{props, runner};

fn main() {
    let args: Vec<String> = std::env::args().collect();
    if args.len() < 2 {
        eprintln!("usage: vcheck <C01..C20> [--tier quick|thorough] [--seed N] [--only IDX]");
        std::process::exit(2);
    }
    let prop = args[1].clone();
    let mut tier = match std::env::var("VERIF_TIER").as_deref() {
        Ok("thorough") => runner::Tier::Thorough,
        _ => runner::Tier::Quick,
    };
    let mut seed: u64 = std::env::var("VERIF_SEED")
        .ok()
        .and_then(|s| s.parse::<i64>().ok())
        .map(|s| s as u64)
        .unwrap_or(1);
    let mut only: Option<usize> = None;
    let mut rest = Vec::new();
    let mut i = 2;
    while i < args.len() {
        match args[i].as_str() {
            "--tier" => {
                tier = if args[i + 1] == "thorough" {
                    runner::Tier::Thorough
                } else {
                    runner::Tier::Quick
                };
                i += 1;
            }
            "--seed" => {
                seed = args[i + 1].parse::<i64>().expect("seed") as u64;
                i += 1;
            }
            "--replay" => {
                // re-execute the scenario recorded in a witness file (same seed, same index)
                let doc: serde_json::Value = serde_json::from_str(
                    &std::fs::read_to_string(&args[i + 1]).expect("replay file"),
                )
                .expect("replay file is json");
                seed = doc["seed"].as_u64().unwrap_or(seed);
                only = doc["scenario"].as_u64().map(|x| x as usize);
                if doc["tier"].as_str() == Some("thorough") {
                    tier = runner::Tier::Thorough;
                }
                println!("replaying {} scenario {:?} seed {}: recorded '{}'", prop, only, seed, doc["what"].as_str().unwrap_or(""));
                i += 1;
            }
            "--only" => {
                only = Some(args[i + 1].parse().expect("idx"));
                i += 1;
            }
            other => rest.push(other.to_owned()),
        }
        i += 1;
    }
    // error values must not capture backtraces (cost, and noise in witnesses)
    std::env::set_var("RUST_LIB_BACKTRACE", "0");
    runner::install_panic_hook();
    let code = props::dispatch(&prop, tier, seed, only, &rest);
    std::process::exit(code);
}
