//! Scenario execution: thread pool, watchdog, panic capture, three-valued verdicts, evidence and
//! replay files.

use serde_json::{json, Value};
use std::{
    collections::{BTreeMap, BTreeSet, HashMap},
    path::PathBuf,
    sync::{
        atomic::{AtomicUsize, Ordering},
        mpsc, Arc, Mutex, OnceLock,
    },
    thread::ThreadId,
    time::{Duration, Instant},
};

#[derive(Clone, Copy, Debug, PartialEq, Eq)]
pub enum Tier {
    Quick,
    Thorough,
}

impl Tier {
    pub fn as_str(self) -> &'static str {
        match self {
            Tier::Quick => "quick",
            Tier::Thorough => "thorough",
        }
    }
    pub fn pick<T>(self, q: T, t: T) -> T {
        match self {
            Tier::Quick => q,
            Tier::Thorough => t,
        }
    }
}

#[derive(Clone, Debug)]
pub enum Verdict {
    Held,
    Violated { what: String, witness: Value },
    Inconclusive(String),
    /// the scenario turned out to lie outside the property's quantifier (not counted)
    Skipped(String),
}

#[derive(Clone, Debug)]
pub struct ScenarioResult {
    pub verdict: Verdict,
    /// abstraction of what was observed, used for distinct_nontrivial
    pub signature: Option<String>,
    pub sample: Option<Value>,
    pub counters: BTreeMap<String, u64>,
    /// identifies the class of a violation for the known-findings file
    pub finding_key: Option<String>,
    /// findings observed by a scenario that otherwise went on and held: key -> (hits, what).
    /// A key that is not listed in known_findings.json is reported as a VIOLATION.
    pub noted: BTreeMap<String, (u64, String)>,
}

impl ScenarioResult {
    pub fn held(sig: impl Into<String>) -> Self {
        Self {
            verdict: Verdict::Held,
            signature: Some(sig.into()),
            sample: None,
            counters: BTreeMap::new(),
            finding_key: None,
            noted: BTreeMap::new(),
        }
    }
    pub fn violated(what: impl Into<String>, witness: Value) -> Self {
        Self {
            verdict: Verdict::Violated {
                what: what.into(),
                witness,
            },
            signature: None,
            sample: None,
            counters: BTreeMap::new(),
            finding_key: None,
            noted: BTreeMap::new(),
        }
    }
    pub fn inconclusive(why: impl Into<String>) -> Self {
        Self {
            verdict: Verdict::Inconclusive(why.into()),
            signature: None,
            sample: None,
            counters: BTreeMap::new(),
            finding_key: None,
            noted: BTreeMap::new(),
        }
    }
    pub fn skipped(why: impl Into<String>) -> Self {
        Self {
            verdict: Verdict::Skipped(why.into()),
            signature: None,
            sample: None,
            counters: BTreeMap::new(),
            finding_key: None,
            noted: BTreeMap::new(),
        }
    }
    pub fn with_sample(mut self, v: Value) -> Self {
        self.sample = Some(v);
        self
    }
    pub fn with_sig(mut self, s: impl Into<String>) -> Self {
        self.signature = Some(s.into());
        self
    }
    pub fn with_key(mut self, s: impl Into<String>) -> Self {
        self.finding_key = Some(s.into());
        self
    }
    pub fn count(mut self, k: &str, n: u64) -> Self {
        *self.counters.entry(k.to_owned()).or_default() += n;
        self
    }
    pub fn note(&mut self, key: &str, hits: u64, what: impl Into<String>) {
        let e = self.noted.entry(key.to_owned()).or_insert((0, what.into()));
        e.0 += hits;
    }
    pub fn add(&mut self, k: &str, n: u64) {
        *self.counters.entry(k.to_owned()).or_default() += n;
    }
}

// ------------------------------------------------------------------------------------------------
// panic capture

#[derive(Clone, Debug, serde::Serialize)]
pub struct PanicRec {
    pub message: String,
    pub location: String,
    pub thread: String,
}

static PANICS: OnceLock<Mutex<HashMap<ThreadId, Vec<PanicRec>>>> = OnceLock::new();
static QUIET: std::sync::atomic::AtomicBool = std::sync::atomic::AtomicBool::new(true);

pub fn install_panic_hook() {
    PANICS.get_or_init(|| Mutex::new(HashMap::new()));
    std::panic::set_hook(Box::new(|info| {
        let message = if let Some(s) = info.payload().downcast_ref::<&str>() {
            (*s).to_owned()
        } else if let Some(s) = info.payload().downcast_ref::<String>() {
            s.clone()
        } else {
            "<non-string panic>".to_owned()
        };
        let location = info
            .location()
            .map(|l| format!("{}:{}", l.file(), l.line()))
            .unwrap_or_default();
        let th = std::thread::current();
        let rec = PanicRec {
            message,
            location,
            thread: th.name().unwrap_or("?").to_owned(),
        };
        if !QUIET.load(Ordering::Relaxed) {
            eprintln!("PANIC|{}|{}|{}", rec.location, rec.message.replace('\n', " "), rec.thread);
        }
        if let Some(m) = PANICS.get() {
            m.lock().unwrap().entry(th.id()).or_default().push(rec);
        }
    }));
}

pub fn set_panic_quiet(q: bool) {
    QUIET.store(q, Ordering::Relaxed);
}

/// Panics recorded on the current thread since the last call.
pub fn take_panics() -> Vec<PanicRec> {
    PANICS
        .get()
        .and_then(|m| m.lock().unwrap().remove(&std::thread::current().id()))
        .unwrap_or_default()
}

/// Strip the repository prefix so locations are stable.
pub fn norm_location(loc: &str) -> String {
    if let Some(i) = loc.find("crates/") {
        loc[i..].to_owned()
    } else if let Some(i) = loc.find("/registry/src/") {
        let rest = &loc[i + 14..];
        rest.split_once('/').map(|x| x.1.to_owned()).unwrap_or_else(|| rest.to_owned())
    } else {
        loc.to_owned()
    }
}

// ------------------------------------------------------------------------------------------------

/// Run one simulated scenario on a fresh paused current-thread runtime.
pub fn sim_block_on<F, Fut, T>(f: F) -> T
where
    F: FnOnce() -> Fut,
    Fut: std::future::Future<Output = T>,
{
    let rt = tokio::runtime::Builder::new_current_thread()
        .enable_all()
        .start_paused(true)
        .build()
        .unwrap();
    let out = rt.block_on(async { f().await });
    anemo::verif::set_socket_factory(None);
    // give spawned tasks a bounded chance to run their drop paths, then tear down
    rt.shutdown_timeout(Duration::from_millis(200));
    out
}

pub struct RunCfg {
    pub property: &'static str,
    pub tier: Tier,
    pub seed: u64,
    pub scenarios: usize,
    pub threads: usize,
    pub watchdog: Duration,
    /// stop starting new scenarios after this much wall time
    pub budget: Duration,
    /// run only this scenario index
    pub only: Option<usize>,
}

#[derive(Default)]
pub struct Summary {
    pub evaluations: u64,
    pub held: u64,
    pub inconclusive: u64,
    pub skipped: u64,
    pub violations: Vec<(usize, String, Value, Option<String>)>,
    pub signatures: BTreeSet<String>,
    pub samples: Vec<Value>,
    pub counters: BTreeMap<String, u64>,
    pub inconclusive_reasons: BTreeMap<String, u64>,
    pub skipped_reasons: BTreeMap<String, u64>,
    pub noted: BTreeMap<String, (u64, String, usize)>,
    pub wall_s: f64,
}

impl Summary {
    pub fn absorb(&mut self, idx: usize, r: ScenarioResult) {
        for (k, v) in r.counters {
            *self.counters.entry(k).or_default() += v;
        }
        for (k, (n, what)) in r.noted {
            let e = self.noted.entry(k).or_insert((0, what, idx));
            e.0 += n;
        }
        match r.verdict {
            Verdict::Held => {
                self.evaluations += 1;
                self.held += 1;
                if let Some(s) = r.signature {
                    self.signatures.insert(s);
                }
            }
            Verdict::Violated { what, witness } => {
                self.evaluations += 1;
                self.violations.push((idx, what, witness, r.finding_key));
            }
            Verdict::Inconclusive(why) => {
                self.evaluations += 1;
                self.inconclusive += 1;
                *self.inconclusive_reasons.entry(why).or_default() += 1;
            }
            Verdict::Skipped(why) => {
                self.skipped += 1;
                *self.skipped_reasons.entry(why).or_default() += 1;
            }
        }
        if let Some(s) = r.sample {
            if self.samples.len() < 6 {
                self.samples.push(s);
            }
        }
    }

    pub fn merge(&mut self, o: Summary) {
        self.evaluations += o.evaluations;
        self.held += o.held;
        self.inconclusive += o.inconclusive;
        self.skipped += o.skipped;
        self.violations.extend(o.violations);
        self.signatures.extend(o.signatures);
        for s in o.samples {
            if self.samples.len() < 8 {
                self.samples.push(s);
            }
        }
        for (k, v) in o.counters {
            *self.counters.entry(k).or_default() += v;
        }
        for (k, v) in o.inconclusive_reasons {
            *self.inconclusive_reasons.entry(k).or_default() += v;
        }
        for (k, v) in o.skipped_reasons {
            *self.skipped_reasons.entry(k).or_default() += v;
        }
        for (k, (n, what, idx)) in o.noted {
            let e = self.noted.entry(k).or_insert((0, what, idx));
            e.0 += n;
        }
        self.wall_s += o.wall_s;
    }
}

/// Runs `scenarios` scenario indices on a pool of threads.  A scenario that exceeds the watchdog
/// is recorded as inconclusive and its thread is abandoned.
pub fn run_scenarios<F>(cfg: &RunCfg, f: F) -> Summary
where
    F: Fn(usize, u64) -> ScenarioResult + Send + Sync + 'static,
{
    let started = Instant::now();
    let f = Arc::new(f);
    let next = Arc::new(AtomicUsize::new(0));
    let (tx, rx) = mpsc::channel::<(usize, usize, Option<ScenarioResult>)>();
    // worker -> (scenario idx, start time)
    let current: Arc<Mutex<HashMap<usize, (usize, Instant, u64)>>> = Arc::new(Mutex::new(HashMap::new()));
    let total = cfg.scenarios;
    let only = cfg.only;
    // VERIF_BUDGET_S caps the wall-clock budget of any run (used to smoke-test the thorough tier)
    let budget = std::env::var("VERIF_BUDGET_S").ok().and_then(|s| s.parse::<u64>().ok()).map(|s| cfg.budget.min(Duration::from_secs(s))).unwrap_or(cfg.budget);
    let seed = cfg.seed;
    let spawn_worker = |wid: usize| {
        let f = f.clone();
        let next = next.clone();
        let tx = tx.clone();
        let current = current.clone();
        std::thread::Builder::new()
            .name(format!("scn-{wid}"))
            .stack_size(16 << 20)
            .spawn(move || loop {
                if started.elapsed() > budget {
                    let _ = tx.send((wid, usize::MAX, None));
                    return;
                }
                let mut idx = next.fetch_add(1, Ordering::SeqCst);
                if let Some(o) = only {
                    if idx > 0 {
                        let _ = tx.send((wid, usize::MAX, None));
                        return;
                    }
                    idx = o;
                } else if idx >= total {
                    let _ = tx.send((wid, usize::MAX, None));
                    return;
                }
                current.lock().unwrap().insert(wid, (idx, Instant::now(), own_tid()));
                let sseed = seed
                    .wrapping_mul(0x9E3779B97F4A7C15)
                    .wrapping_add((idx as u64).wrapping_mul(0xD1B54A32D192ED03));
                let r = std::panic::catch_unwind(std::panic::AssertUnwindSafe(|| f(idx, sseed)));
                let r = match r {
                    Ok(r) => r,
                    Err(_) => {
                        let p = take_panics();
                        ScenarioResult::inconclusive(format!(
                            "harness panic: {:?}",
                            p.last().map(|p| (&p.message, &p.location))
                        ))
                    }
                };
                let still_mine = current
                    .lock()
                    .unwrap()
                    .get(&wid)
                    .map(|(i, _, _)| *i == idx)
                    .unwrap_or(false);
                if !still_mine {
                    // watchdog gave up on us
                    return;
                }
                current.lock().unwrap().remove(&wid);
                let _ = tx.send((wid, idx, Some(r)));
            })
            .unwrap();
    };
    let mut live_workers = 0usize;
    let mut next_wid = 0usize;
    for _ in 0..cfg.threads.max(1) {
        spawn_worker(next_wid);
        next_wid += 1;
        live_workers += 1;
    }
    let mut summary = Summary::default();
    let (mut spin_diagnoses, mut livelock_found) = (0u32, false);
    while live_workers > 0 {
        match rx.recv_timeout(Duration::from_millis(500)) {
            Ok((_wid, _idx, None)) => live_workers -= 1,
            Ok((_wid, idx, Some(r))) => summary.absorb(idx, r),
            Err(mpsc::RecvTimeoutError::Timeout) => {
                let mut stuck = Vec::new();
                {
                    let cur = current.lock().unwrap();
                    for (wid, (idx, t, tid)) in cur.iter() {
                        if t.elapsed() > cfg.watchdog {
                            stuck.push((*wid, *idx, *tid));
                        }
                    }
                }
                for (wid, idx, tid) in stuck {
                    current.lock().unwrap().remove(&wid);
                    // The watchdog itself is never a verdict.  For checks whose property is about not
                    // stalling, a thread that burns CPU with the same library function innermost on
                    // its stack in three samples is diagnosed as a livelock inside the library.
                    // (at most two diagnoses per run; once a livelock is established no further
                    // scenarios are started - the abandoned threads keep their cores busy)
                    let diag = if SPIN_IS_VIOLATION.load(Ordering::SeqCst) && spin_diagnoses < 2 && !livelock_found {
                        spin_diagnoses += 1;
                        diagnose_spin(tid)
                    } else {
                        None
                    };
                    if diag.is_some() {
                        livelock_found = true;
                        next.store(total, Ordering::SeqCst);
                    }
                    let verdict = match (SPIN_IS_VIOLATION.load(Ordering::SeqCst), diag) {
                        (true, Some((func, stacks))) => ScenarioResult::violated(
                            format!("the scenario's thread spins without progress inside {func} (CPU-bound, same innermost library frame in 3 stack samples taken after the {} s watchdog)", cfg.watchdog.as_secs()),
                            json!({"scenario": idx, "livelock_in": func, "stack_samples": stacks}),
                        ),
                        _ => ScenarioResult::inconclusive("wall-clock watchdog fired"),
                    };
                    summary.absorb(idx, verdict);
                    live_workers -= 1;
                    // replace the lost worker
                    if !livelock_found {
                        spawn_worker(next_wid);
                        next_wid += 1;
                        live_workers += 1;
                    }
                }
            }
            Err(mpsc::RecvTimeoutError::Disconnected) => break,
        }
    }
    summary.wall_s = started.elapsed().as_secs_f64();
    summary
}

static SPIN_IS_VIOLATION: std::sync::atomic::AtomicBool = std::sync::atomic::AtomicBool::new(false);

/// Checks of properties that say "never stalls / never hangs" turn a diagnosed livelock inside the
/// library into a verdict (see `diagnose_spin`); everywhere else a stuck scenario is inconclusive.
pub fn set_spin_is_violation(on: bool) {
    SPIN_IS_VIOLATION.store(on, Ordering::SeqCst);
}

fn own_tid() -> u64 {
    std::fs::read_link("/proc/thread-self")
        .ok()
        .and_then(|p| p.file_name().map(|f| f.to_string_lossy().into_owned()))
        .and_then(|s| s.parse().ok())
        .unwrap_or(0)
}

fn thread_cpu_ticks(tid: u64) -> Option<u64> {
    let s = std::fs::read_to_string(format!("/proc/self/task/{tid}/stat")).ok()?;
    let rest = &s[s.rfind(')')? + 2..];
    let f: Vec<&str> = rest.split_whitespace().collect();
    Some(f.get(11)?.parse::<u64>().ok()? + f.get(12)?.parse::<u64>().ok()?)
}

/// Is thread `tid` of this process CPU-bound with the same `anemo::` function innermost on its
/// stack in three gdb samples one second apart?  Returns that function and the sampled stacks.
fn diagnose_spin(tid: u64) -> Option<(String, Vec<Vec<String>>)> {
    if tid == 0 || cfg!(miri) {
        return None;
    }
    let a = thread_cpu_ticks(tid)?;
    std::thread::sleep(Duration::from_secs(1));
    let b = thread_cpu_ticks(tid)?;
    eprintln!("watchdog: thread {tid} used {} cpu ticks in 1 s", b.saturating_sub(a));
    if b.saturating_sub(a) < 20 {
        return None; // not burning a core: blocked or waiting, not a livelock
    }
    let pid = std::process::id();
    let mut innermost: Vec<String> = Vec::new();
    let mut stacks = Vec::new();
    for _ in 0..3 {
        // gdb stops every thread of this process, this one included: its output must go to a file,
        // not to a pipe that only this (stopped) thread would drain
        let path = std::env::temp_dir().join(format!("vcheck-gdb-{pid}-{tid}.txt"));
        let file = std::fs::File::create(&path).ok()?;
        let _ = std::process::Command::new("gdb")
            .args(["-p", &pid.to_string(), "-batch", "-ex", "thread apply all bt 60"])
            .stdin(std::process::Stdio::null())
            .stdout(file)
            .stderr(std::process::Stdio::null())
            .status()
            .ok()?;
        let text = std::fs::read_to_string(&path).unwrap_or_default();
        let _ = std::fs::remove_file(&path);
        // the block of our thread
        let marker = format!("(LWP {tid})");
        let mut frames: Vec<String> = Vec::new();
        let mut inside = false;
        for l in text.lines() {
            if l.starts_with("Thread ") {
                inside = l.contains(&marker);
                continue;
            }
            if inside && l.trim_start().starts_with('#') {
                frames.push(l.trim().chars().take(160).collect());
            }
        }
        let lib = frames.iter().find_map(|f| {
            let i = f.find("anemo::")?;
            // not the harness crate (anemo_verif::) - "anemo::" preceded by a non-identifier char
            if i > 0 && f.as_bytes()[i - 1].is_ascii_alphanumeric() {
                return None;
            }
            Some(f[i..].split(|c: char| c == '(' || c == ' ' || c == '<').next().unwrap_or("").to_owned())
        });
        eprintln!("watchdog: thread {tid} stack sample: {} frames, innermost library frame {:?}", frames.len(), lib);
        innermost.push(lib.unwrap_or_default());
        stacks.push(frames.into_iter().take(14).collect());
        std::thread::sleep(Duration::from_secs(1));
    }
    if !innermost[0].is_empty() && innermost.iter().all(|f| f == &innermost[0]) {
        Some((innermost[0].clone(), stacks))
    } else {
        None
    }
}

// ------------------------------------------------------------------------------------------------
// known findings

#[derive(Clone, Debug, serde::Deserialize)]
pub struct KnownFinding {
    pub property: String,
    /// exact finding key produced by the check
    pub key: String,
    pub what: String,
    #[serde(default)]
    pub status: String, // "known" | "fixed"
    #[serde(default)]
    pub commit: String,
}

pub fn verif_root() -> PathBuf {
    std::env::var("VERIF_ROOT")
        .map(PathBuf::from)
        .unwrap_or_else(|_| PathBuf::from("/verif"))
}

pub fn load_known_findings() -> Vec<KnownFinding> {
    let p = verif_root().join("known_findings.json");
    match std::fs::read_to_string(&p) {
        Ok(s) => {
            let v: Value = serde_json::from_str(&s).expect("known_findings.json must parse");
            serde_json::from_value(v["findings"].clone()).unwrap_or_default()
        }
        Err(_) => Vec::new(),
    }
}

pub struct Report {
    pub property: &'static str,
    pub tier: Tier,
    pub seed: u64,
    pub level: &'static str,
    pub rule: String,
    pub assumptions: Vec<String>,
    pub summary: Summary,
    pub extra: BTreeMap<String, Value>,
    pub exhaustive: Option<bool>,
    /// minimum number of distinct signatures for the run to count as having observed enough
    pub min_signatures: usize,
    /// named counters that must be non-zero (non-vacuity)
    pub required_counters: Vec<&'static str>,
}

/// Verdict lines stay one printable line whatever hostile text a witness quotes.
fn one_line(s: &str) -> String {
    s.chars().flat_map(|c| if c.is_control() { c.escape_default().collect::<Vec<_>>() } else { vec![c] }).take(600).collect()
}

/// Writes evidence, prints VIOLATION / KNOWN-FINDING lines, returns the exit code.
pub fn finish(report: Report) -> i32 {
    let root = verif_root();
    let known = load_known_findings();
    let mut new_violations = 0usize;
    let mut known_hits: BTreeMap<String, u64> = BTreeMap::new();
    let replays = root.join("replays");
    let _ = std::fs::create_dir_all(&replays);
    let mut printed = 0;
    for (idx, what, witness, key) in &report.summary.violations {
        let matched = key.as_ref().and_then(|k| {
            known.iter().find(|f| {
                f.property == report.property && &f.key == k && f.status != "fixed"
            })
        });
        if let Some(f) = matched {
            *known_hits.entry(f.key.clone()).or_default() += 1;
            continue;
        }
        new_violations += 1;
        if printed < 10 {
            let path = replays.join(format!(
                "{}-{}-{}-{}.json",
                report.property,
                report.tier.as_str(),
                report.seed,
                idx
            ));
            let doc = json!({
                "property": report.property,
                "tier": report.tier.as_str(),
                "seed": report.seed,
                "scenario": idx,
                "what": what,
                "finding_key": key,
                "witness": witness,
            });
            let _ = std::fs::write(&path, serde_json::to_string_pretty(&doc).unwrap());
            println!(
                "VIOLATION property={} replay={} -- {}",
                report.property,
                path.display(),
                one_line(what)
            );
            printed += 1;
        }
    }
    // findings noted by scenarios that went on: listed ones are KNOWN-FINDING, others violations
    for (k, (n, what, idx)) in &report.summary.noted {
        let listed = known.iter().any(|f| f.property == report.property && &f.key == k && f.status != "fixed");
        if listed {
            *known_hits.entry(k.clone()).or_default() += n;
        } else {
            new_violations += 1;
            let path = replays.join(format!("{}-{}-{}-{}.json", report.property, report.tier.as_str(), report.seed, idx));
            let doc = json!({"property": report.property, "tier": report.tier.as_str(), "seed": report.seed,
                "scenario": idx, "what": what, "finding_key": k, "witness": {"hits": n}});
            let _ = std::fs::write(&path, serde_json::to_string_pretty(&doc).unwrap());
            println!("VIOLATION property={} replay={} -- {} [{} hits, key={}]", report.property, path.display(), one_line(what), n, k);
        }
    }
    for (k, n) in &known_hits {
        let f = known.iter().find(|f| &f.key == k).unwrap();
        println!(
            "KNOWN-FINDING: property={} {} [key={} hits={}]",
            report.property, f.what, k, n
        );
    }

    let s = &report.summary;
    let mut coverage = serde_json::Map::new();
    coverage.insert("evaluations".into(), json!(s.evaluations));
    coverage.insert("distinct_nontrivial".into(), json!(s.signatures.len()));
    coverage.insert("rule".into(), json!(report.rule));
    let mut samples = s.samples.clone();
    if samples.is_empty() {
        samples.push(json!({"signatures": s.signatures.iter().take(5).collect::<Vec<_>>() }));
    }
    coverage.insert("samples".into(), json!(samples));
    coverage.insert("held".into(), json!(s.held));
    coverage.insert("inconclusive".into(), json!(s.inconclusive));
    coverage.insert("inconclusive_reasons".into(), json!(s.inconclusive_reasons));
    coverage.insert("skipped_outside_quantifier".into(), json!(s.skipped));
    coverage.insert("skipped_reasons".into(), json!(s.skipped_reasons));
    coverage.insert("counters".into(), json!(s.counters));
    coverage.insert(
        "signatures_seen".into(),
        json!(s.signatures.iter().take(60).collect::<Vec<_>>()),
    );
    coverage.insert("known_finding_hits".into(), json!(known_hits));
    if let Some(e) = report.exhaustive {
        coverage.insert("exhaustive".into(), json!(e));
    }
    for (k, v) in &report.extra {
        coverage.insert(k.clone(), v.clone());
    }
    let evidence = json!({
        "property_id": report.property,
        "tier": report.tier.as_str(),
        "seed": report.seed,
        "level": report.level,
        "coverage": Value::Object(coverage),
        "assumptions": report.assumptions,
        "wall_s": s.wall_s,
        "violations": new_violations,
    });
    let evdir = root.join("evidence");
    let _ = std::fs::create_dir_all(&evdir);
    std::fs::write(
        evdir.join(format!("{}.json", report.property)),
        serde_json::to_string_pretty(&evidence).unwrap(),
    )
    .expect("write evidence");

    println!(
        "{} {} seed={} evaluations={} held={} inconclusive={} skipped={} distinct={} violations={} known={} wall={:.1}s",
        report.property,
        report.tier.as_str(),
        report.seed,
        s.evaluations,
        s.held,
        s.inconclusive,
        s.skipped,
        s.signatures.len(),
        new_violations,
        known_hits.values().sum::<u64>(),
        s.wall_s
    );
    for (k, v) in &s.counters {
        println!("  counter {k} = {v}");
    }
    for (k, v) in &s.inconclusive_reasons {
        println!("  inconclusive[{v}]: {k}");
    }
    for (k, v) in &s.skipped_reasons {
        println!("  skipped[{v}]: {k}");
    }

    if new_violations > 0 {
        return 1;
    }
    // non-vacuity
    let mut harness_err = Vec::new();
    if s.evaluations == 0 {
        harness_err.push("no scenario was evaluated".to_owned());
    }
    if s.evaluations > 0 && s.inconclusive * 5 > s.evaluations {
        harness_err.push(format!(
            "{} of {} scenarios inconclusive (>20%)",
            s.inconclusive, s.evaluations
        ));
    }
    if s.signatures.len() < report.min_signatures {
        harness_err.push(format!(
            "only {} distinct signatures observed, need {}",
            s.signatures.len(),
            report.min_signatures
        ));
    }
    for c in &report.required_counters {
        if s.counters.get(*c).copied().unwrap_or(0) == 0 {
            harness_err.push(format!("monitor observed no '{c}' events"));
        }
    }
    // a reduced workload under Miri is judged on what it did observe, not on its breadth
    if cfg!(miri) || std::env::var("VERIF_MIRI").is_ok() {
        harness_err.clear();
    }
    if !harness_err.is_empty() {
        for e in harness_err {
            println!("HARNESS-ERROR property={} {}", report.property, e);
        }
        return 2;
    }
    0
}
