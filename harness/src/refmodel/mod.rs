//! Reference models that are independent of the code under test.
pub mod wire;
