//! Hand-written encoder/parser for anemo's wire format (no bincode, no tokio-util):
//!
//! ```text
//! "anemo" | u16 BE version | 0x00 | u32 BE n1 | header[n1] | u32 BE n2 | body[n2]
//! request header  = u64 LE len, route bytes, u64 LE count, count x (u64 LE, key, u64 LE, value)
//! response header = u16 LE status,           u64 LE count, count x (u64 LE, key, u64 LE, value)
//! ```

pub const PREAMBLE: &[u8; 5] = b"anemo";

pub fn enc_map(out: &mut Vec<u8>, headers: &[(String, String)]) {
    out.extend_from_slice(&(headers.len() as u64).to_le_bytes());
    for (k, v) in headers {
        out.extend_from_slice(&(k.len() as u64).to_le_bytes());
        out.extend_from_slice(k.as_bytes());
        out.extend_from_slice(&(v.len() as u64).to_le_bytes());
        out.extend_from_slice(v.as_bytes());
    }
}

pub fn request_header(route: &str, headers: &[(String, String)]) -> Vec<u8> {
    let mut h = Vec::new();
    h.extend_from_slice(&(route.len() as u64).to_le_bytes());
    h.extend_from_slice(route.as_bytes());
    enc_map(&mut h, headers);
    h
}

pub fn response_header(status: u16, headers: &[(String, String)]) -> Vec<u8> {
    let mut h = Vec::new();
    h.extend_from_slice(&status.to_le_bytes());
    enc_map(&mut h, headers);
    h
}

pub fn frame(version: u16, header: &[u8], body: &[u8]) -> Vec<u8> {
    let mut out = Vec::with_capacity(16 + header.len() + body.len());
    out.extend_from_slice(PREAMBLE);
    out.extend_from_slice(&version.to_be_bytes());
    out.push(0);
    out.extend_from_slice(&(header.len() as u32).to_be_bytes());
    out.extend_from_slice(header);
    out.extend_from_slice(&(body.len() as u32).to_be_bytes());
    out.extend_from_slice(body);
    out
}

pub fn encode_request(route: &str, headers: &[(String, String)], body: &[u8]) -> Vec<u8> {
    frame(1, &request_header(route, headers), body)
}

pub fn encode_response(status: u16, headers: &[(String, String)], body: &[u8]) -> Vec<u8> {
    frame(1, &response_header(status, headers), body)
}

#[derive(Debug, Clone, PartialEq, Eq)]
pub struct ParsedFrames {
    pub version: u16,
    pub header: Vec<u8>,
    pub body: Vec<u8>,
}

struct Cur<'a> {
    b: &'a [u8],
    i: usize,
}

impl<'a> Cur<'a> {
    fn take(&mut self, n: usize) -> Result<&'a [u8], String> {
        if self.b.len() - self.i < n {
            return Err(format!("truncated: need {n} at {} of {}", self.i, self.b.len()));
        }
        let s = &self.b[self.i..self.i + n];
        self.i += n;
        Ok(s)
    }
    fn u64le(&mut self) -> Result<u64, String> {
        Ok(u64::from_le_bytes(self.take(8)?.try_into().unwrap()))
    }
    fn u32be(&mut self) -> Result<u32, String> {
        Ok(u32::from_be_bytes(self.take(4)?.try_into().unwrap()))
    }
    fn string(&mut self) -> Result<String, String> {
        let n = self.u64le()?;
        if n > (self.b.len() - self.i) as u64 {
            return Err("string length exceeds input".into());
        }
        String::from_utf8(self.take(n as usize)?.to_vec()).map_err(|_| "invalid utf-8".to_owned())
    }
    fn map(&mut self) -> Result<Vec<(String, String)>, String> {
        let n = self.u64le()?;
        let mut v = Vec::new();
        for _ in 0..n {
            let k = self.string()?;
            let val = self.string()?;
            v.push((k, val));
        }
        Ok(v)
    }
}

/// Splits a byte string into version, header frame and body frame; the input must be consumed
/// exactly (`allow_trailing` = false) and no frame may exceed `max_frame`.
pub fn parse_frames(b: &[u8], max_frame: usize, allow_trailing: bool) -> Result<ParsedFrames, String> {
    let mut c = Cur { b, i: 0 };
    let pre = c.take(8)?;
    if &pre[0..5] != PREAMBLE {
        return Err("bad preamble".into());
    }
    if pre[7] != 0 {
        return Err("reserved byte not zero".into());
    }
    let version = u16::from_be_bytes([pre[5], pre[6]]);
    if version != 1 {
        return Err(format!("unknown version {version}"));
    }
    let n1 = c.u32be()? as usize;
    if n1 > max_frame {
        return Err("header frame too big".into());
    }
    let header = c.take(n1)?.to_vec();
    let n2 = c.u32be()? as usize;
    if n2 > max_frame {
        return Err("body frame too big".into());
    }
    let body = c.take(n2)?.to_vec();
    if !allow_trailing && c.i != b.len() {
        return Err("trailing bytes".into());
    }
    Ok(ParsedFrames {
        version,
        header,
        body,
    })
}

#[derive(Debug, Clone, PartialEq, Eq)]
pub struct ParsedRequest {
    pub version: u16,
    pub route: String,
    pub headers: Vec<(String, String)>,
    pub body: Vec<u8>,
}

#[derive(Debug, Clone, PartialEq, Eq)]
pub struct ParsedResponse {
    pub version: u16,
    pub status: u16,
    pub headers: Vec<(String, String)>,
    pub body: Vec<u8>,
}

pub const VALID_STATUS: [u16; 8] = [200, 400, 404, 408, 429, 500, 505, 520];

/// bincode (default options) tolerates trailing bytes inside the header frame when using
/// `deserialize`; the reference mirrors that through `strict_header`.
pub fn parse_request_header(h: &[u8], strict_header: bool) -> Result<(String, Vec<(String, String)>), String> {
    let mut c = Cur { b: h, i: 0 };
    let route = c.string()?;
    let headers = c.map()?;
    if strict_header && c.i != h.len() {
        return Err("trailing bytes in header frame".into());
    }
    Ok((route, headers))
}

pub fn parse_response_header(h: &[u8], strict_header: bool) -> Result<(u16, Vec<(String, String)>), String> {
    let mut c = Cur { b: h, i: 0 };
    let status = u16::from_le_bytes(c.take(2)?.try_into().unwrap());
    let headers = c.map()?;
    if strict_header && c.i != h.len() {
        return Err("trailing bytes in header frame".into());
    }
    if !VALID_STATUS.contains(&status) {
        return Err(format!("unknown status {status}"));
    }
    Ok((status, headers))
}

pub fn parse_request(b: &[u8], max_frame: usize, allow_trailing: bool, strict_header: bool) -> Result<ParsedRequest, String> {
    let f = parse_frames(b, max_frame, allow_trailing)?;
    let (route, headers) = parse_request_header(&f.header, strict_header)?;
    Ok(ParsedRequest {
        version: f.version,
        route,
        headers,
        body: f.body,
    })
}

pub fn parse_response(b: &[u8], max_frame: usize, allow_trailing: bool, strict_header: bool) -> Result<ParsedResponse, String> {
    let f = parse_frames(b, max_frame, allow_trailing)?;
    let (status, headers) = parse_response_header(&f.header, strict_header)?;
    Ok(ParsedResponse {
        version: f.version,
        status,
        headers,
        body: f.body,
    })
}
