//! Scenario runtime for the simulated engine (E1): real `anemo::Network`s attached to a
//! [`Fabric`], a ground-truth registry, observers at the API boundary and one shared event log.

use crate::fabric::{Fabric, SimSocket};
use anemo::{
    types::{response::StatusCode, PeerEvent},
    Network, PeerId, Request, Response,
};
use bytes::Bytes;
use rand::{rngs::StdRng, Rng, SeedableRng};
use std::{
    collections::{BTreeMap, HashMap},
    convert::Infallible,
    future::Future,
    hash::{Hash, Hasher},
    net::SocketAddr,
    pin::Pin,
    sync::{
        atomic::{AtomicU64, AtomicUsize, Ordering},
        Arc, Mutex,
    },
    task::{Context, Poll},
    time::Duration,
};
use tokio::time::Instant;

pub type Headers = BTreeMap<String, String>;

pub const H_ID: &str = "vid";
pub const H_SCRIPT: &str = "vs";
pub const H_SEQ: &str = "vseq";
/// request header: ask the harness service to add a response header `p` of this many bytes
pub const H_RESP_PAD: &str = "vrh";
pub const NEVER: u64 = u64::MAX;

pub fn hash_bytes(b: &[u8]) -> u64 {
    let mut h = std::collections::hash_map::DefaultHasher::new();
    b.hash(&mut h);
    h.finish()
}

/// Deterministic pseudo-random bytes.
pub fn gen_bytes(seed: u64, len: usize) -> Bytes {
    let mut v = Vec::with_capacity(len);
    let mut x = seed.wrapping_mul(0x9E3779B97F4A7C15) | 1;
    while v.len() + 8 <= len {
        x ^= x << 13;
        x ^= x >> 7;
        x ^= x << 17;
        v.extend_from_slice(&x.to_le_bytes());
    }
    while v.len() < len {
        x ^= x << 13;
        x ^= x >> 7;
        x ^= x << 17;
        v.push(x as u8);
    }
    Bytes::from(v)
}

pub fn pid_hex(p: &PeerId) -> String {
    hex::encode(&p.0[..6])
}

pub fn peer_id_of_key(key: &[u8; 32]) -> PeerId {
    let kp = ring::signature::Ed25519KeyPair::from_seed_unchecked(key).unwrap();
    let mut id = [0u8; 32];
    id.copy_from_slice(ring::signature::KeyPair::public_key(&kp).as_ref());
    PeerId(id)
}

/// How the harness service answers one request (carried in the `vs` header).
#[derive(Clone, Debug, PartialEq, Eq, serde::Serialize)]
pub struct Script {
    pub delay_us: u64,
    pub resp_len: u32,
    pub status: u16,
    pub nhdr: u16,
    pub seed: u64,
}

impl Default for Script {
    fn default() -> Self {
        Self {
            delay_us: 0,
            resp_len: 0,
            status: 200,
            nhdr: 0,
            seed: 0,
        }
    }
}

impl Script {
    pub fn encode(&self) -> String {
        format!(
            "{}:{}:{}:{}:{}",
            self.delay_us, self.resp_len, self.status, self.nhdr, self.seed
        )
    }
    pub fn decode(s: &str) -> Option<Self> {
        let mut it = s.split(':');
        Some(Self {
            delay_us: it.next()?.parse().ok()?,
            resp_len: it.next()?.parse().ok()?,
            status: it.next()?.parse().ok()?,
            nhdr: it.next()?.parse().ok()?,
            seed: it.next()?.parse().ok()?,
        })
    }
}

#[derive(Clone, Debug, serde::Serialize)]
pub struct MsgDigest {
    pub status: u16,
    pub headers: Headers,
    pub body_len: usize,
    pub body_hash: u64,
}

#[derive(Clone, Debug, serde::Serialize)]
pub enum Outcome {
    Ok {
        msg: MsgDigest,
        peer: Option<String>,
    },
    Err(String),
}

#[derive(Clone, Debug, serde::Serialize)]
pub struct CallRec {
    pub id: u64,
    pub node: usize,
    pub peer: String,
    pub route: String,
    pub headers: Headers,
    pub body_len: usize,
    pub body_hash: u64,
    pub t_call: u64,
    pub t_ret: Option<u64>,
    pub outcome: Option<Outcome>,
    pub abandoned_at: Option<u64>,
}

#[derive(Clone, Debug, serde::Serialize)]
pub enum HandlerEnd {
    Finish(MsgDigest),
    Dropped,
}

#[derive(Clone, Debug, serde::Serialize)]
pub struct StartRec {
    pub node: usize,
    pub id: Option<u64>,
    pub from: Option<String>,
    pub from_full: Option<[u8; 32]>,
    pub inbound_origin: Option<bool>,
    pub remote_addr: Option<SocketAddr>,
    pub route: String,
    pub headers: Headers,
    pub body_len: usize,
    pub body_hash: u64,
    pub t_start: u64,
    pub t_end: Option<u64>,
    pub end: Option<HandlerEnd>,
}

#[derive(Clone, Debug)]
pub struct PeerEvRec {
    pub t: u64,
    pub ev: PeerEvent,
}

#[derive(Default)]
pub struct LogInner {
    pub calls: Vec<CallRec>,
    pub call_idx: HashMap<u64, usize>,
    pub starts: Vec<StartRec>,
    pub events: HashMap<usize, Vec<PeerEvRec>>,
    pub event_stream_closed: HashMap<usize, u64>,
    pub event_lagged: HashMap<usize, u64>,
}

pub struct Log {
    pub t0: Instant,
    pub inner: Mutex<LogInner>,
    pub next_id: AtomicU64,
    pub next_seq: AtomicU64,
    /// live handler futures (gauge)
    pub live_handlers: AtomicUsize,
}

impl Log {
    pub fn new() -> Arc<Self> {
        Arc::new(Self {
            t0: Instant::now(),
            inner: Mutex::new(LogInner::default()),
            next_id: AtomicU64::new(1),
            next_seq: AtomicU64::new(1),
            live_handlers: AtomicUsize::new(0),
        })
    }
    pub fn now(&self) -> u64 {
        Instant::now().duration_since(self.t0).as_micros() as u64
    }
    pub fn lock(&self) -> std::sync::MutexGuard<'_, LogInner> {
        self.inner.lock().unwrap()
    }
}

fn headers_of(h: &anemo::types::HeaderMap) -> Headers {
    h.iter().map(|(k, v)| (k.clone(), v.clone())).collect()
}

pub fn digest_response(r: &Response<Bytes>) -> MsgDigest {
    MsgDigest {
        status: r.status().to_u16(),
        headers: headers_of(r.headers()),
        body_len: r.body().len(),
        body_hash: hash_bytes(r.body()),
    }
}

// ------------------------------------------------------------------------------------------------
// The service every honest node runs.

pub struct HarnessService {
    pub node: usize,
    pub log: Arc<Log>,
    pub live: Arc<AtomicUsize>,
}

impl Clone for HarnessService {
    fn clone(&self) -> Self {
        self.live.fetch_add(1, Ordering::SeqCst);
        Self {
            node: self.node,
            log: self.log.clone(),
            live: self.live.clone(),
        }
    }
}

impl Drop for HarnessService {
    fn drop(&mut self) {
        self.live.fetch_sub(1, Ordering::SeqCst);
    }
}

impl HarnessService {
    pub fn new(node: usize, log: Arc<Log>) -> (Self, Arc<AtomicUsize>) {
        let live = Arc::new(AtomicUsize::new(1));
        (
            Self {
                node,
                log,
                live: live.clone(),
            },
            live,
        )
    }
}

struct HandlerGuard {
    log: Arc<Log>,
    idx: usize,
    finished: bool,
}

impl Drop for HandlerGuard {
    fn drop(&mut self) {
        self.log.live_handlers.fetch_sub(1, Ordering::SeqCst);
        if !self.finished {
            let t = self.log.now();
            let mut g = self.log.lock();
            let rec = &mut g.starts[self.idx];
            rec.t_end = Some(t);
            rec.end = Some(HandlerEnd::Dropped);
        }
    }
}

pub fn build_response(id: Option<u64>, script: &Script, req_body: &Bytes, seq: u64, resp_pad: Option<usize>) -> Response<Bytes> {
    let status = StatusCode::new(script.status).unwrap_or(StatusCode::Success);
    let body = if script.resp_len == 0 && script.seed == 0 {
        req_body.clone()
    } else {
        gen_bytes(script.seed ^ id.unwrap_or(0), script.resp_len as usize)
    };
    let mut resp = Response::new(body).with_status(status);
    for i in 0..script.nhdr {
        let k = format!("r{:x}-{}", script.seed & 0xffff, i);
        let vlen = ((script.seed >> (i % 16)) & 0x3f) as usize;
        let v: String = gen_bytes(script.seed.wrapping_add(i as u64), vlen)
            .iter()
            .map(|b| (b'a' + (b % 26)) as char)
            .collect();
        resp.headers_mut().insert(k, v);
    }
    if let Some(id) = id {
        resp.headers_mut().insert(H_ID.into(), id.to_string());
    }
    resp.headers_mut().insert(H_SEQ.into(), seq.to_string());
    if let Some(n) = resp_pad {
        resp.headers_mut().insert("p".into(), "x".repeat(n));
    }
    resp
}

impl tower::Service<Request<Bytes>> for HarnessService {
    type Response = Response<Bytes>;
    type Error = Infallible;
    type Future = Pin<Box<dyn Future<Output = Result<Response<Bytes>, Infallible>> + Send>>;

    fn poll_ready(&mut self, _: &mut Context<'_>) -> Poll<Result<(), Infallible>> {
        Poll::Ready(Ok(()))
    }

    fn call(&mut self, req: Request<Bytes>) -> Self::Future {
        let log = self.log.clone();
        let node = self.node;
        let id = req.headers().get(H_ID).and_then(|s| s.parse::<u64>().ok());
        let script = req
            .headers()
            .get(H_SCRIPT)
            .and_then(|s| Script::decode(s))
            .unwrap_or_default();
        let held_ref = if req.headers().contains_key("vhold") {
            req.extensions().get::<anemo::NetworkRef>().and_then(|r| r.upgrade())
        } else {
            None
        };
        let resp_pad = req.headers().get(H_RESP_PAD).and_then(|s| s.parse::<usize>().ok());
        // "vblock": the handler spends this many microseconds in a section that never yields
        // (std::thread::sleep) - only meaningful on a multi-threaded runtime (E2 trials)
        let block_us = req.headers().get("vblock").and_then(|s| s.parse::<u64>().ok());
        let from = req.peer_id().copied();
        let origin = req
            .extensions()
            .get::<anemo::ConnectionOrigin>()
            .map(|o| *o == anemo::ConnectionOrigin::Inbound);
        let remote_addr = req.extensions().get::<SocketAddr>().copied();
        let rec = StartRec {
            node,
            id,
            from: from.as_ref().map(pid_hex),
            from_full: from.map(|p| p.0),
            inbound_origin: origin,
            remote_addr,
            route: req.route().to_owned(),
            headers: headers_of(req.headers()),
            body_len: req.body().len(),
            body_hash: hash_bytes(req.body()),
            t_start: log.now(),
            t_end: None,
            end: None,
        };
        let idx = {
            let mut g = log.lock();
            g.starts.push(rec);
            g.starts.len() - 1
        };
        log.live_handlers.fetch_add(1, Ordering::SeqCst);
        let mut guard = HandlerGuard {
            log: log.clone(),
            idx,
            finished: false,
        };
        let body = req.into_body();
        Box::pin(async move {
            let _held_ref = held_ref;
            if let Some(us) = block_us {
                std::thread::sleep(Duration::from_micros(us));
            }
            if script.delay_us == NEVER {
                futures::future::pending::<()>().await;
            } else if script.delay_us > 0 {
                tokio::time::sleep(Duration::from_micros(script.delay_us)).await;
            }
            let seq = log.next_seq.fetch_add(1, Ordering::SeqCst);
            let resp = build_response(id, &script, &body, seq, resp_pad);
            let t = log.now();
            {
                let mut g = log.lock();
                let rec = &mut g.starts[idx];
                rec.t_end = Some(t);
                rec.end = Some(HandlerEnd::Finish(digest_response(&resp)));
            }
            guard.finished = true;
            drop(guard);
            Ok(resp)
        })
    }
}

// ------------------------------------------------------------------------------------------------

#[derive(Clone)]
pub struct NodeCfg {
    pub key: [u8; 32],
    pub name: String,
    pub alt_name: Option<String>,
    pub config: anemo::Config,
    pub bind: Option<SocketAddr>,
    /// install a (counting) user `outbound_request_layer` ...
    pub outbound_layer: Option<Arc<AtomicUsize>>,
    /// ... that forwards each request only after this long
    pub outbound_layer_delay: Duration,
    /// wrap the service in `tower::limit::ConcurrencyLimit` (back-pressure through `poll_ready`)
    pub concurrency_limit: Option<usize>,
}

/// Outbound layer that counts the requests it sees and forwards them - at once, or (a throttle, a
/// queue in front of the wire) only after `delay`.
#[derive(Clone)]
pub struct CountLayer(pub Arc<AtomicUsize>, pub Duration);

pub struct CountSvc<S>(Arc<std::sync::Mutex<S>>, Arc<AtomicUsize>, Duration);

impl<S> tower::Layer<S> for CountLayer {
    type Service = CountSvc<S>;
    fn layer(&self, inner: S) -> Self::Service {
        CountSvc(Arc::new(std::sync::Mutex::new(inner)), self.0.clone(), self.1)
    }
}

impl<S, R> tower::Service<R> for CountSvc<S>
where
    S: tower::Service<R> + Send + 'static,
    S::Future: Send + 'static,
    R: Send + 'static,
{
    type Response = S::Response;
    type Error = S::Error;
    type Future = Pin<Box<dyn Future<Output = Result<S::Response, S::Error>> + Send>>;
    fn poll_ready(&mut self, cx: &mut Context<'_>) -> Poll<Result<(), Self::Error>> {
        self.0.lock().unwrap().poll_ready(cx)
    }
    fn call(&mut self, r: R) -> Self::Future {
        self.1.fetch_add(1, Ordering::SeqCst);
        let (inner, delay) = (self.0.clone(), self.2);
        Box::pin(async move {
            if !delay.is_zero() {
                tokio::time::sleep(delay).await;
            }
            // forwarded only now: whatever the library wraps around the wire call starts here
            let fut = inner.lock().unwrap().call(r);
            fut.await
        })
    }
}

impl NodeCfg {
    pub fn new(key: [u8; 32]) -> Self {
        Self {
            key,
            name: "verif".into(),
            alt_name: None,
            config: default_config(),
            bind: None,
            outbound_layer: None,
            outbound_layer_delay: Duration::ZERO,
            concurrency_limit: None,
        }
    }
}

/// Baseline config used by the scenarios: large event channel, short timeouts in virtual time.
pub fn default_config() -> anemo::Config {
    let mut c = anemo::Config::default();
    c.peer_event_broadcast_channel_capacity = Some(4096);
    c.connect_timeout_ms = Some(3_000);
    c.shutdown_idle_timeout_ms = Some(2_000);
    c.connectivity_check_interval_ms = Some(5_000);
    let mut q = anemo::QuicConfig::default();
    q.max_idle_timeout_ms = Some(10_000);
    c.quic = Some(q);
    c
}

pub struct Node {
    pub idx: usize,
    pub net: Network,
    pub peer_id: PeerId,
    pub addr: SocketAddr,
    pub key: [u8; 32],
    pub svc_live: Arc<AtomicUsize>,
    pub snapshot: Vec<PeerId>,
    /// second, synchronously drained subscription (exact change-log checks)
    pub sync_rx: Mutex<tokio::sync::broadcast::Receiver<PeerEvent>>,
    /// state reconstructed from `sync_snapshot` + all events drained so far
    pub sync_state: Mutex<std::collections::BTreeSet<PeerId>>,
    pub cfg: NodeCfg,
}

#[derive(Debug)]
pub enum DrainEnd {
    Empty,
    Closed,
    Lagged(u64),
}

impl Node {
    /// Drain the synchronous subscription; applies the events to `sync_state` and returns them.
    pub fn drain(&self) -> (Vec<PeerEvent>, DrainEnd, Vec<String>) {
        let mut rx = self.sync_rx.lock().unwrap();
        let mut st = self.sync_state.lock().unwrap();
        let mut evs = Vec::new();
        let mut errs = Vec::new();
        let end = loop {
            match rx.try_recv() {
                Ok(ev) => {
                    match &ev {
                        PeerEvent::NewPeer(p) => {
                            if !st.insert(*p) {
                                errs.push(format!("NewPeer({}) while already present", pid_hex(p)));
                            }
                        }
                        PeerEvent::LostPeer(p, _) => {
                            if !st.remove(p) {
                                errs.push(format!("LostPeer({}) while not present", pid_hex(p)));
                            }
                        }
                    }
                    evs.push(ev);
                }
                Err(tokio::sync::broadcast::error::TryRecvError::Empty) => break DrainEnd::Empty,
                Err(tokio::sync::broadcast::error::TryRecvError::Closed) => break DrainEnd::Closed,
                Err(tokio::sync::broadcast::error::TryRecvError::Lagged(n)) => break DrainEnd::Lagged(n),
            }
        };
        (evs, end, errs)
    }

    pub fn replayed(&self) -> Vec<PeerId> {
        self.sync_state.lock().unwrap().iter().copied().collect()
    }
}

#[derive(Clone, Debug)]
pub struct Party {
    pub peer_id: PeerId,
    pub key: [u8; 32],
    pub honest: bool,
}

pub struct World {
    pub fabric: Fabric,
    pub log: Arc<Log>,
    pub rng: StdRng,
    pub seed: u64,
    /// ground truth: who owns which fabric address
    pub registry: HashMap<SocketAddr, Party>,
    next_node: usize,
}

pub fn install_fabric_factory(fabric: &Fabric) {
    let fabric = fabric.clone();
    anemo::verif::set_socket_factory(Some(Box::new(move |sock: std::net::UdpSocket| {
        let addr = sock.local_addr().unwrap();
        let s: Arc<SimSocket> = fabric.socket(addr, Some(sock));
        s as Arc<dyn quinn::AsyncUdpSocket>
    })));
}

impl World {
    /// Must be called inside the scenario runtime (paused clock).
    pub fn new(seed: u64) -> Self {
        let fabric = Fabric::new(seed);
        fabric.start();
        install_fabric_factory(&fabric);
        Self {
            fabric,
            log: Log::new(),
            rng: StdRng::seed_from_u64(seed),
            seed,
            registry: HashMap::new(),
            next_node: 0,
        }
    }

    pub fn now(&self) -> u64 {
        self.log.now()
    }

    pub fn gen_key(&mut self) -> [u8; 32] {
        let mut k = [0u8; 32];
        self.rng.fill(&mut k);
        k
    }

    pub fn next_id(&self) -> u64 {
        self.log.next_id.fetch_add(1, Ordering::SeqCst)
    }

    pub fn start_node(&mut self, cfg: NodeCfg) -> anyhow::Result<Node> {
        let idx = self.next_node;
        self.next_node += 1;
        self.start_node_as(idx, cfg)
    }

    /// Start a network; `idx` is the identity used in the logs (a restarted node keeps its idx).
    pub fn start_node_as(&mut self, idx: usize, cfg: NodeCfg) -> anyhow::Result<Node> {
        let (svc, live) = HarnessService::new(idx, self.log.clone());
        let bind: SocketAddr = cfg.bind.unwrap_or_else(|| "127.0.0.1:0".parse().unwrap());
        // the builder's setters are applied in an order derived from the node's key: what a
        // network does must not depend on the order in which it was configured
        let mut b = Network::bind(bind);
        let mut setters: Vec<u8> = vec![0, 1, 2];
        if cfg.alt_name.is_some() {
            setters.push(3);
        }
        if cfg.outbound_layer.is_some() {
            setters.push(4);
        }
        let mut x = u64::from_le_bytes(cfg.key[..8].try_into().unwrap()) | 1;
        for i in (1..setters.len()).rev() {
            x ^= x << 13;
            x ^= x >> 7;
            x ^= x << 17;
            setters.swap(i, (x % (i as u64 + 1)) as usize);
        }
        for s in setters {
            b = match s {
                0 => b.config(cfg.config.clone()),
                1 => b.server_name(cfg.name.clone()),
                2 => b.private_key(cfg.key),
                3 => b.alternate_server_name(cfg.alt_name.clone().unwrap()),
                _ => b.outbound_request_layer(CountLayer(cfg.outbound_layer.clone().unwrap(), cfg.outbound_layer_delay)),
            };
        }
        let net = match cfg.concurrency_limit {
            Some(k) => b.start(tower::limit::ConcurrencyLimit::new(svc, k))?,
            None => b.start(svc)?,
        };
        let peer_id = net.peer_id();
        let addr = net.local_addr();
        self.registry.insert(
            addr,
            Party {
                peer_id,
                key: cfg.key,
                honest: true,
            },
        );
        let (rx, snapshot) = net.subscribe()?;
        spawn_event_logger(idx, self.log.clone(), rx);
        let (sync_rx, sync_snapshot) = net.subscribe()?;
        Ok(Node {
            idx,
            net,
            peer_id,
            addr,
            key: cfg.key,
            svc_live: live,
            snapshot,
            sync_rx: Mutex::new(sync_rx),
            sync_state: Mutex::new(sync_snapshot.into_iter().collect()),
            cfg,
        })
    }

    pub fn owner(&self, addr: &SocketAddr) -> Option<&Party> {
        self.registry.get(addr)
    }

    pub fn close(&self) {
        self.fabric.close();
        anemo::verif::set_socket_factory(None);
    }
}

pub fn spawn_event_logger(
    idx: usize,
    log: Arc<Log>,
    mut rx: tokio::sync::broadcast::Receiver<PeerEvent>,
) {
    tokio::spawn(async move {
        loop {
            match rx.recv().await {
                Ok(ev) => {
                    let t = log.now();
                    log.lock().events.entry(idx).or_default().push(PeerEvRec { t, ev });
                }
                Err(tokio::sync::broadcast::error::RecvError::Lagged(n)) => {
                    *log.lock().event_lagged.entry(idx).or_default() += n;
                }
                Err(tokio::sync::broadcast::error::RecvError::Closed) => {
                    let t = log.now();
                    log.lock().event_stream_closed.insert(idx, t);
                    return;
                }
            }
        }
    });
}

// ------------------------------------------------------------------------------------------------
// client side

#[derive(Clone, Debug)]
pub struct RpcSpec {
    pub route: String,
    pub headers: Headers,
    pub body: Bytes,
    pub script: Option<Script>,
}

impl RpcSpec {
    pub fn simple(body_len: usize, seed: u64) -> Self {
        Self {
            route: "/x".into(),
            headers: Headers::new(),
            body: gen_bytes(seed, body_len),
            script: None,
        }
    }
    pub fn with_script(mut self, s: Script) -> Self {
        self.script = Some(s);
        self
    }
}

pub fn build_request(id: u64, spec: &RpcSpec) -> Request<Bytes> {
    let mut req = Request::new(spec.body.clone()).with_route(spec.route.clone());
    for (k, v) in &spec.headers {
        req.headers_mut().insert(k.clone(), v.clone());
    }
    req.headers_mut().insert(H_ID.into(), id.to_string());
    if let Some(s) = &spec.script {
        req.headers_mut().insert(H_SCRIPT.into(), s.encode());
    }
    req
}

pub fn log_call(log: &Log, id: u64, node: usize, peer: &PeerId, req: &Request<Bytes>) {
    let rec = CallRec {
        id,
        node,
        peer: pid_hex(peer),
        route: req.route().to_owned(),
        headers: headers_of(req.headers()),
        body_len: req.body().len(),
        body_hash: hash_bytes(req.body()),
        t_call: log.now(),
        t_ret: None,
        outcome: None,
        abandoned_at: None,
    };
    let mut g = log.lock();
    g.calls.push(rec);
    let i = g.calls.len() - 1;
    g.call_idx.insert(id, i);
}

pub fn log_return(log: &Log, id: u64, res: &anyhow::Result<Response<Bytes>>) {
    let t = log.now();
    let outcome = match res {
        Ok(r) => Outcome::Ok {
            msg: digest_response(r),
            peer: r.peer_id().map(pid_hex),
        },
        Err(e) => Outcome::Err(format!("{e:#}")),
    };
    let mut g = log.lock();
    let i = g.call_idx[&id];
    g.calls[i].t_ret = Some(t);
    g.calls[i].outcome = Some(outcome);
}

pub fn log_abandon(log: &Log, id: u64) {
    let t = log.now();
    let mut g = log.lock();
    if let Some(&i) = g.call_idx.get(&id) {
        if g.calls[i].t_ret.is_none() {
            g.calls[i].abandoned_at = Some(t);
        }
    }
}

/// One logged RPC with a caller-chosen id (so the caller can abandon it and still name it).
pub async fn rpc_with_id(
    log: &Arc<Log>,
    net: &Network,
    node: usize,
    peer: PeerId,
    id: u64,
    spec: &RpcSpec,
) -> anyhow::Result<Response<Bytes>> {
    let req = build_request(id, spec);
    log_call(log, id, node, &peer, &req);
    let res = net.rpc(peer, req).await;
    log_return(log, id, &res);
    res
}

/// One logged RPC through `Network::rpc`.
pub async fn rpc(
    log: &Arc<Log>,
    net: &Network,
    node: usize,
    peer: PeerId,
    spec: &RpcSpec,
) -> (u64, anyhow::Result<Response<Bytes>>) {
    let id = log.next_id.fetch_add(1, Ordering::SeqCst);
    let req = build_request(id, spec);
    log_call(log, id, node, &peer, &req);
    let res = net.rpc(peer, req).await;
    log_return(log, id, &res);
    (id, res)
}

// ------------------------------------------------------------------------------------------------
// C02 oracle over a log (used by several properties)

#[derive(Debug, Default, serde::Serialize)]
pub struct DeliveryStats {
    pub calls: usize,
    pub ok: usize,
    pub err: usize,
    pub open: usize,
    pub starts: usize,
}

fn strip_transport_headers(h: &Headers) -> Headers {
    h.clone()
}

/// Returns violations found in the history: at-most-once, request integrity, response integrity
/// and pairing.
pub fn check_delivery(g: &LogInner, stats: &mut DeliveryStats) -> Vec<String> {
    let mut v = Vec::new();
    let mut starts_by_id: HashMap<u64, Vec<&StartRec>> = HashMap::new();
    for s in &g.starts {
        if let Some(id) = s.id {
            starts_by_id.entry(id).or_default().push(s);
        }
    }
    stats.starts += g.starts.len();
    for (id, ss) in &starts_by_id {
        if ss.len() > 1 {
            v.push(format!("request id {id} delivered to a handler {} times", ss.len()));
        }
        if !g.call_idx.contains_key(id) {
            v.push(format!("handler started for id {id} that no caller sent"));
        }
    }
    for c in &g.calls {
        stats.calls += 1;
        let ss = starts_by_id.get(&c.id);
        if let Some(ss) = ss {
            let s = ss[0];
            if s.route != c.route
                || strip_transport_headers(&s.headers) != strip_transport_headers(&c.headers)
                || s.body_len != c.body_len
                || s.body_hash != c.body_hash
            {
                let (sh, ch) = (strip_transport_headers(&s.headers), strip_transport_headers(&c.headers));
                let short = |x: &str| x.chars().take(40).collect::<String>();
                let hdr_diff: Vec<String> = ch
                    .iter()
                    .filter(|(k, v)| sh.get(*k) != Some(*v))
                    .map(|(k, v)| format!("{:?}: sent {:?}, handler saw {:?}", short(k), short(v), sh.get(k).map(|x| short(x))))
                    .chain(sh.iter().filter(|(k, _)| !ch.contains_key(*k)).map(|(k, v)| format!("{:?}: not sent, handler saw {:?}", short(k), short(v))))
                    .take(3)
                    .collect();
                v.push(format!(
                    "request {} altered in transit: sent route={:?} hdrs={} body={}B#{:x}, handler saw route={:?} hdrs={} body={}B#{:x}; headers that differ: {:?}",
                    c.id, short(&c.route), c.headers.len(), c.body_len, c.body_hash,
                    short(&s.route), s.headers.len(), s.body_len, s.body_hash, hdr_diff
                ));
            }
        }
        match &c.outcome {
            None => stats.open += 1,
            Some(Outcome::Err(_)) => stats.err += 1,
            Some(Outcome::Ok { msg, .. }) => {
                stats.ok += 1;
                match ss {
                    None => {
                        // a response that no handler produced: only the transport's own
                        // RequestTimeout answer (inbound timeout layer) or a NotFound may come
                        // from below the harness service; anything else is from nowhere.
                        if msg.status == 200 {
                            v.push(format!(
                                "rpc {} returned Ok(200) but no handler ever started for it",
                                c.id
                            ));
                        }
                    }
                    Some(ss) => {
                        let s = ss[0];
                        match &s.end {
                            Some(HandlerEnd::Finish(f)) => {
                                if f.status != msg.status
                                    || f.headers != msg.headers
                                    || f.body_len != msg.body_len
                                    || f.body_hash != msg.body_hash
                                {
                                    v.push(format!(
                                        "rpc {} returned a response different from what its handler produced: handler status={} hdrs={:?} body={}B#{:x}; caller got status={} hdrs={:?} body={}B#{:x}",
                                        c.id, f.status, f.headers, f.body_len, f.body_hash,
                                        msg.status, msg.headers, msg.body_len, msg.body_hash
                                    ));
                                }
                            }
                            _ => {
                                if msg.status == 200 {
                                    v.push(format!(
                                        "rpc {} returned Ok(200) although its handler never finished",
                                        c.id
                                    ));
                                }
                            }
                        }
                    }
                }
            }
        }
    }
    v
}

/// Replay snapshot + events into a set.
pub fn replay_events(snapshot: &[PeerId], events: &[PeerEvent]) -> Result<Vec<PeerId>, String> {
    let mut set: std::collections::BTreeSet<PeerId> = snapshot.iter().copied().collect();
    if set.len() != snapshot.len() {
        return Err("duplicate peer in subscription snapshot".into());
    }
    for ev in events {
        match ev {
            PeerEvent::NewPeer(p) => {
                if !set.insert(*p) {
                    return Err(format!("NewPeer({}) for a peer already present", pid_hex(p)));
                }
            }
            PeerEvent::LostPeer(p, _) => {
                if !set.remove(p) {
                    return Err(format!("LostPeer({}) for a peer not present", pid_hex(p)));
                }
            }
        }
    }
    Ok(set.into_iter().collect())
}

pub fn sorted(mut v: Vec<PeerId>) -> Vec<PeerId> {
    v.sort();
    v
}

/// Wait (virtual time) until `cond` holds, polling every `step`; false on timeout.
pub async fn wait_until(timeout: Duration, step: Duration, mut cond: impl FnMut() -> bool) -> bool {
    let deadline = Instant::now() + timeout;
    loop {
        if cond() {
            return true;
        }
        if Instant::now() >= deadline {
            return false;
        }
        tokio::time::sleep(step).await;
    }
}
