//! Hostile peer: a raw quinn/rustls endpoint on the fabric, certificate forging utilities and
//! hostile stream behaviours.  Built on the public APIs of quinn, rustls, rcgen and ring only.

use crate::fabric::Fabric;
use rustls::pki_types::{CertificateDer, PrivateKeyDer, ServerName, UnixTime};
use std::{net::SocketAddr, sync::Arc};

#[derive(Clone)]
pub struct CertKey {
    pub chain: Vec<CertificateDer<'static>>,
    pub key: Arc<dyn rustls::sign::SigningKey>,
}

impl std::fmt::Debug for CertKey {
    fn fmt(&self, f: &mut std::fmt::Formatter<'_>) -> std::fmt::Result {
        write!(f, "CertKey(chain={}, first={}B)", self.chain.len(), self.chain.first().map(|c| c.len()).unwrap_or(0))
    }
}

pub fn signing_key(pkcs8: &PrivateKeyDer<'static>) -> Arc<dyn rustls::sign::SigningKey> {
    rustls::crypto::ring::sign::any_supported_type(pkcs8).expect("supported key")
}

impl CertKey {
    /// Exactly what an anemo network with this key and name presents.
    pub fn honest(key: [u8; 32], name: &str) -> Self {
        let (cert, pk) = anemo::verif::crypto::generate_cert(key, name);
        Self {
            chain: vec![cert],
            key: signing_key(&pk),
        }
    }

    /// `cert_from`'s certificate chain with `key_from`'s private key (certificate replay).
    pub fn replay(cert_from: &CertKey, key_from: &CertKey) -> Self {
        Self {
            chain: cert_from.chain.clone(),
            key: key_from.key.clone(),
        }
    }

    pub fn with_cert(&self, cert: Vec<u8>) -> Self {
        Self {
            chain: vec![CertificateDer::from(cert)],
            key: self.key.clone(),
        }
    }
}

pub fn ed25519_pkcs8(key: &[u8; 32]) -> PrivateKeyDer<'static> {
    anemo::verif::crypto::generate_cert(*key, "x").1
}

fn rcgen_ed_keypair(key: &[u8; 32]) -> rcgen::KeyPair {
    let der = ed25519_pkcs8(key);
    rcgen::KeyPair::from_der_and_sign_algo(&der, &rcgen::PKCS_ED25519).unwrap()
}

/// Variations of a self-signed certificate for `key`.
#[derive(Clone, Debug)]
pub enum CertVariant {
    Plain,
    Expired,
    NotYetValid,
    CaFlagged,
    /// another party's public key planted in CN, serial number and a custom extension
    Planted([u8; 32]),
    NoSan,
    ManySans(Vec<String>),
}

pub fn make_cert(key: &[u8; 32], name: &str, variant: &CertVariant) -> Vec<u8> {
    let kp = rcgen_ed_keypair(key);
    let sans: Vec<String> = match variant {
        CertVariant::NoSan => vec![],
        CertVariant::ManySans(v) => v.clone(),
        _ => vec![name.to_owned()],
    };
    let mut params = rcgen::CertificateParams::new(sans).unwrap();
    match variant {
        CertVariant::Expired => {
            params.not_before = rcgen::date_time_ymd(2001, 1, 1);
            params.not_after = rcgen::date_time_ymd(2002, 1, 1);
        }
        CertVariant::NotYetValid => {
            params.not_before = rcgen::date_time_ymd(2990, 1, 1);
            params.not_after = rcgen::date_time_ymd(2999, 1, 1);
        }
        CertVariant::CaFlagged => {
            params.is_ca = rcgen::IsCa::Ca(rcgen::BasicConstraints::Unconstrained);
        }
        CertVariant::Planted(other) => {
            params
                .distinguished_name
                .push(rcgen::DnType::CommonName, hex::encode(other));
            // the other party's complete SubjectPublicKeyInfo (Ed25519 header + key), byte for
            // byte, in fields that PRECEDE the certificate's real SPKI (serial number, a name
            // attribute) and in one that follows it (an extension): whatever derives an identity
            // from a certificate must take it from the authenticated SPKI, not from a look-alike
            let mut spki = vec![0x30, 0x2a, 0x30, 0x05, 0x06, 0x03, 0x2b, 0x65, 0x70, 0x03, 0x21, 0x00];
            spki.extend_from_slice(other);
            params.serial_number = Some(rcgen::SerialNumber::from_slice(&spki));
            if let Ok(bmp) = rcgen::BmpString::from_utf16be(spki.clone()) {
                params.distinguished_name.push(rcgen::DnType::OrganizationName, rcgen::DnValue::BmpString(bmp));
            }
            params
                .custom_extensions
                .push(rcgen::CustomExtension::from_oid_content(
                    &[1, 3, 6, 1, 4, 1, 99999, 1],
                    spki,
                ));
        }
        _ => {}
    }
    params.self_signed(&kp).unwrap().der().to_vec()
}

/// Self-signed ECDSA P-256 certificate (fresh random key).
pub fn make_ecdsa_cert(name: &str) -> CertKey {
    let kp = rcgen::KeyPair::generate_for(&rcgen::PKCS_ECDSA_P256_SHA256).unwrap();
    let cert = rcgen::CertificateParams::new(vec![name.to_owned()])
        .unwrap()
        .self_signed(&kp)
        .unwrap();
    let pk = PrivateKeyDer::Pkcs8(kp.serialize_der().into());
    CertKey {
        chain: vec![cert.der().to_owned()],
        key: signing_key(&pk),
    }
}

/// (offset, length) of the TBSCertificate (including its header) inside a DER certificate.
pub fn tbs_span(cert: &[u8]) -> Option<(usize, usize)> {
    fn read_len(b: &[u8], i: usize) -> Option<(usize, usize)> {
        let f = *b.get(i)?;
        if f & 0x80 == 0 {
            Some((f as usize, 1))
        } else {
            let n = (f & 0x7f) as usize;
            if n == 0 || n > 4 {
                return None;
            }
            let mut l = 0usize;
            for k in 0..n {
                l = (l << 8) | *b.get(i + 1 + k)? as usize;
            }
            Some((l, 1 + n))
        }
    }
    if *cert.first()? != 0x30 {
        return None;
    }
    let (_, hl) = read_len(cert, 1)?;
    let tbs_off = 1 + hl;
    if *cert.get(tbs_off)? != 0x30 {
        return None;
    }
    let (tl, thl) = read_len(cert, tbs_off + 1)?;
    Some((tbs_off, 1 + thl + tl))
}

/// `cert`'s TBSCertificate re-signed with `signer` (Ed25519): the trailing 64 signature bytes are
/// replaced.
pub fn resign_cert(cert: &[u8], signer: &[u8; 32]) -> Option<Vec<u8>> {
    let (off, len) = tbs_span(cert)?;
    let tbs = &cert[off..off + len];
    let kp = ring::signature::Ed25519KeyPair::from_seed_unchecked(signer).ok()?;
    let sig = kp.sign(tbs);
    if cert.len() < 64 {
        return None;
    }
    let mut out = cert.to_vec();
    let n = out.len();
    out[n - 64..].copy_from_slice(sig.as_ref());
    Some(out)
}

/// TLS 1.3 CertificateVerify message for a given transcript hash, as rustls builds it.
pub fn tls13_verify_message(server: bool, transcript: &[u8]) -> Vec<u8> {
    let mut m = vec![0x20u8; 64];
    m.extend_from_slice(if server {
        b"TLS 1.3, server CertificateVerify\x00"
    } else {
        b"TLS 1.3, client CertificateVerify\x00"
    });
    m.extend_from_slice(transcript);
    m
}

pub fn dss(scheme: rustls::SignatureScheme, sig: &[u8]) -> rustls::DigitallySignedStruct {
    use rustls::internal::msgs::codec::{Codec, Reader};
    let mut bytes = Vec::new();
    bytes.extend_from_slice(&u16::from(scheme).to_be_bytes());
    bytes.extend_from_slice(&(sig.len() as u16).to_be_bytes());
    bytes.extend_from_slice(sig);
    rustls::DigitallySignedStruct::read(&mut Reader::init(&bytes)).unwrap()
}

pub fn now_unix() -> UnixTime {
    UnixTime::now()
}

// ------------------------------------------------------------------------------------------------
// rustls plumbing

#[derive(Debug)]
struct AcceptAnyServer;

impl rustls::client::danger::ServerCertVerifier for AcceptAnyServer {
    fn verify_server_cert(
        &self,
        _end_entity: &CertificateDer<'_>,
        _intermediates: &[CertificateDer<'_>],
        _server_name: &ServerName<'_>,
        _ocsp: &[u8],
        _now: UnixTime,
    ) -> Result<rustls::client::danger::ServerCertVerified, rustls::Error> {
        Ok(rustls::client::danger::ServerCertVerified::assertion())
    }
    fn verify_tls12_signature(
        &self,
        _m: &[u8],
        _c: &CertificateDer<'_>,
        _d: &rustls::DigitallySignedStruct,
    ) -> Result<rustls::client::danger::HandshakeSignatureValid, rustls::Error> {
        Ok(rustls::client::danger::HandshakeSignatureValid::assertion())
    }
    fn verify_tls13_signature(
        &self,
        _m: &[u8],
        _c: &CertificateDer<'_>,
        _d: &rustls::DigitallySignedStruct,
    ) -> Result<rustls::client::danger::HandshakeSignatureValid, rustls::Error> {
        Ok(rustls::client::danger::HandshakeSignatureValid::assertion())
    }
    fn supported_verify_schemes(&self) -> Vec<rustls::SignatureScheme> {
        rustls::crypto::ring::default_provider()
            .signature_verification_algorithms
            .supported_schemes()
    }
}

#[derive(Debug)]
struct AcceptAnyClient;

impl rustls::server::danger::ClientCertVerifier for AcceptAnyClient {
    fn offer_client_auth(&self) -> bool {
        true
    }
    fn client_auth_mandatory(&self) -> bool {
        false
    }
    fn root_hint_subjects(&self) -> &[rustls::DistinguishedName] {
        &[]
    }
    fn verify_client_cert(
        &self,
        _e: &CertificateDer<'_>,
        _i: &[CertificateDer<'_>],
        _now: UnixTime,
    ) -> Result<rustls::server::danger::ClientCertVerified, rustls::Error> {
        Ok(rustls::server::danger::ClientCertVerified::assertion())
    }
    fn verify_tls12_signature(
        &self,
        _m: &[u8],
        _c: &CertificateDer<'_>,
        _d: &rustls::DigitallySignedStruct,
    ) -> Result<rustls::client::danger::HandshakeSignatureValid, rustls::Error> {
        Ok(rustls::client::danger::HandshakeSignatureValid::assertion())
    }
    fn verify_tls13_signature(
        &self,
        _m: &[u8],
        _c: &CertificateDer<'_>,
        _d: &rustls::DigitallySignedStruct,
    ) -> Result<rustls::client::danger::HandshakeSignatureValid, rustls::Error> {
        Ok(rustls::client::danger::HandshakeSignatureValid::assertion())
    }
    fn supported_verify_schemes(&self) -> Vec<rustls::SignatureScheme> {
        rustls::crypto::ring::default_provider()
            .signature_verification_algorithms
            .supported_schemes()
    }
}

#[derive(Debug)]
struct FixedClientCert(CertKey);

impl rustls::client::ResolvesClientCert for FixedClientCert {
    fn resolve(
        &self,
        _hints: &[&[u8]],
        _schemes: &[rustls::SignatureScheme],
    ) -> Option<Arc<rustls::sign::CertifiedKey>> {
        Some(Arc::new(rustls::sign::CertifiedKey::new(
            self.0.chain.clone(),
            self.0.key.clone(),
        )))
    }
    fn has_certs(&self) -> bool {
        true
    }
}

/// Server-side resolver: picks the identity from the SNI the client offered.
pub type SniResolver = Arc<dyn Fn(Option<&str>) -> Option<CertKey> + Send + Sync>;

struct ServerResolver(SniResolver);

impl std::fmt::Debug for ServerResolver {
    fn fmt(&self, f: &mut std::fmt::Formatter<'_>) -> std::fmt::Result {
        write!(f, "ServerResolver")
    }
}

impl rustls::server::ResolvesServerCert for ServerResolver {
    fn resolve(
        &self,
        hello: rustls::server::ClientHello<'_>,
    ) -> Option<Arc<rustls::sign::CertifiedKey>> {
        (self.0)(hello.server_name()).map(|ck| {
            Arc::new(rustls::sign::CertifiedKey::new(ck.chain.clone(), ck.key.clone()))
        })
    }
}

pub fn transport() -> Arc<quinn::TransportConfig> {
    let mut t = quinn::TransportConfig::default();
    t.max_concurrent_bidi_streams(1000u32.into());
    t.max_concurrent_uni_streams(1000u32.into());
    t.max_idle_timeout(Some(std::time::Duration::from_secs(30).try_into().unwrap()));
    t.keep_alive_interval(Some(std::time::Duration::from_secs(5)));
    t.datagram_receive_buffer_size(Some(1 << 20));
    Arc::new(t)
}

/// A TLS session store that an adversary keeps across dials, listeners and listener restarts;
/// it counts the tickets it was given and the tickets it offered back.
#[derive(Debug)]
pub struct CountingSessionStore {
    inner: Arc<rustls::client::ClientSessionMemoryCache>,
    pub stored: std::sync::atomic::AtomicU64,
    pub offered: std::sync::atomic::AtomicU64,
}

impl CountingSessionStore {
    pub fn new() -> Arc<Self> {
        Arc::new(Self {
            inner: Arc::new(rustls::client::ClientSessionMemoryCache::new(64)),
            stored: Default::default(),
            offered: Default::default(),
        })
    }
    pub fn stored(&self) -> u64 {
        self.stored.load(std::sync::atomic::Ordering::SeqCst)
    }
    pub fn offered(&self) -> u64 {
        self.offered.load(std::sync::atomic::Ordering::SeqCst)
    }
}

impl rustls::client::ClientSessionStore for CountingSessionStore {
    fn set_kx_hint(&self, server_name: ServerName<'static>, group: rustls::NamedGroup) {
        self.inner.set_kx_hint(server_name, group)
    }
    fn kx_hint(&self, server_name: &ServerName<'_>) -> Option<rustls::NamedGroup> {
        self.inner.kx_hint(server_name)
    }
    fn set_tls12_session(&self, server_name: ServerName<'static>, value: rustls::client::Tls12ClientSessionValue) {
        self.inner.set_tls12_session(server_name, value)
    }
    fn tls12_session(&self, server_name: &ServerName<'_>) -> Option<rustls::client::Tls12ClientSessionValue> {
        self.inner.tls12_session(server_name)
    }
    fn remove_tls12_session(&self, server_name: &ServerName<'static>) {
        self.inner.remove_tls12_session(server_name)
    }
    fn insert_tls13_ticket(&self, server_name: ServerName<'static>, value: rustls::client::Tls13ClientSessionValue) {
        self.stored.fetch_add(1, std::sync::atomic::Ordering::SeqCst);
        self.inner.insert_tls13_ticket(server_name, value)
    }
    fn take_tls13_ticket(&self, server_name: &ServerName<'static>) -> Option<rustls::client::Tls13ClientSessionValue> {
        let t = self.inner.take_tls13_ticket(server_name);
        if t.is_some() {
            self.offered.fetch_add(1, std::sync::atomic::Ordering::SeqCst);
        }
        t
    }
}

pub fn client_config(identity: Option<CertKey>) -> quinn::ClientConfig {
    client_config_with_store(identity, None)
}

pub fn client_config_with_store(identity: Option<CertKey>, store: Option<Arc<CountingSessionStore>>) -> quinn::ClientConfig {
    let b = rustls::ClientConfig::builder_with_provider(Arc::new(
        rustls::crypto::ring::default_provider(),
    ))
    .with_protocol_versions(&[&rustls::version::TLS13])
    .unwrap()
    .dangerous()
    .with_custom_certificate_verifier(Arc::new(AcceptAnyServer));
    let mut crypto = match identity {
        Some(ck) => b.with_client_cert_resolver(Arc::new(FixedClientCert(ck))),
        None => b.with_no_client_auth(),
    };
    if let Some(st) = store {
        crypto.resumption = rustls::client::Resumption::store(st);
    }
    let mut c = quinn::ClientConfig::new(Arc::new(
        quinn::crypto::rustls::QuicClientConfig::try_from(crypto).unwrap(),
    ));
    c.transport_config(transport());
    c
}

pub fn server_config(resolver: SniResolver) -> quinn::ServerConfig {
    let crypto = rustls::ServerConfig::builder_with_provider(Arc::new(
        rustls::crypto::ring::default_provider(),
    ))
    .with_protocol_versions(&[&rustls::version::TLS13])
    .unwrap()
    .with_client_cert_verifier(Arc::new(AcceptAnyClient))
    .with_cert_resolver(Arc::new(ServerResolver(resolver)));
    let mut s = quinn::ServerConfig::with_crypto(Arc::new(
        quinn::crypto::rustls::QuicServerConfig::try_from(crypto).unwrap(),
    ));
    s.transport = transport();
    s
}

/// A raw endpoint on the fabric.
pub struct Adversary {
    pub ep: quinn::Endpoint,
    pub addr: SocketAddr,
}

impl Adversary {
    pub fn new(fabric: &Fabric, addr: SocketAddr, server: Option<SniResolver>) -> Self {
        let sock = fabric.socket(addr, None);
        let ep = quinn::Endpoint::new_with_abstract_socket(
            quinn::EndpointConfig::default(),
            server.map(server_config),
            sock,
            Arc::new(quinn::TokioRuntime),
        )
        .unwrap();
        Self { ep, addr }
    }

    /// QUIC/TLS connect only (no anemo acknowledgement stream).
    pub async fn dial_raw(
        &self,
        target: SocketAddr,
        sni: &str,
        identity: Option<CertKey>,
    ) -> Result<quinn::Connection, String> {
        let connecting = self
            .ep
            .connect_with(client_config(identity), target, sni)
            .map_err(|e| format!("connect: {e}"))?;
        connecting.await.map_err(|e| format!("{e}"))
    }

    /// `dial` with a client configuration the adversary keeps between dials (rustls only offers a
    /// stored ticket back through the configuration - verifier and certificate resolver - that
    /// obtained it).
    pub async fn dial_with_config(
        &self,
        target: SocketAddr,
        sni: &str,
        config: quinn::ClientConfig,
        wait: std::time::Duration,
    ) -> Result<quinn::Connection, String> {
        let connecting = self.ep.connect_with(config, target, sni).map_err(|e| format!("connect: {e}"))?;
        let conn = connecting.await.map_err(|e| format!("{e}"))?;
        Self::await_ack(conn, wait).await
    }

    async fn await_ack(conn: quinn::Connection, wait: std::time::Duration) -> Result<quinn::Connection, String> {
        let ack = async {
            let mut uni = conn.accept_uni().await.map_err(|e| format!("accept_uni: {e}"))?;
            let mut buf = [0u8; 8];
            uni.read_exact(&mut buf)
                .await
                .map_err(|e| format!("read ack: {e}"))?;
            Ok::<_, String>(buf)
        };
        match tokio::time::timeout(wait, ack).await {
            Ok(Ok(_)) => Ok(conn),
            Ok(Err(e)) => Err(e),
            Err(_) => Err("no acknowledgement from listener".into()),
        }
    }

    /// Connect and wait for the listener's acknowledgement (the 8-byte version frame on a uni
    /// stream) – only then has an anemo listener admitted the connection.
    pub async fn dial(
        &self,
        target: SocketAddr,
        sni: &str,
        identity: Option<CertKey>,
        wait: std::time::Duration,
    ) -> Result<quinn::Connection, String> {
        let conn = self.dial_raw(target, sni, identity).await?;
        let ack = async {
            let mut uni = conn.accept_uni().await.map_err(|e| format!("accept_uni: {e}"))?;
            let mut buf = [0u8; 8];
            uni.read_exact(&mut buf)
                .await
                .map_err(|e| format!("read ack: {e}"))?;
            Ok::<_, String>(buf)
        };
        match tokio::time::timeout(wait, ack).await {
            Ok(Ok(_)) => Ok(conn),
            Ok(Err(e)) => Err(e),
            Err(_) => Err("no acknowledgement from listener".into()),
        }
    }

    /// Accept one inbound connection and (optionally) play anemo's listener acknowledgement.
    pub async fn accept(&self, send_ack: bool) -> Result<quinn::Connection, String> {
        let incoming = self.ep.accept().await.ok_or("endpoint closed")?;
        let conn = incoming
            .accept()
            .map_err(|e| format!("{e}"))?
            .await
            .map_err(|e| format!("{e}"))?;
        if send_ack {
            let mut s = conn.open_uni().await.map_err(|e| format!("{e}"))?;
            s.write_all(b"anemo\x00\x01\x00")
                .await
                .map_err(|e| format!("{e}"))?;
            let _ = s.finish();
            let _ = s.stopped().await;
        }
        Ok(conn)
    }

    pub fn close(&self) {
        self.ep.close(0u32.into(), b"bye");
    }
}

pub fn peer_cert_of(conn: &quinn::Connection) -> Option<Vec<u8>> {
    conn.peer_identity()
        .and_then(|i| i.downcast::<Vec<CertificateDer<'static>>>().ok())
        .and_then(|v| v.first().map(|c| c.to_vec()))
}
