#!/usr/bin/env python3
"""Generates /verif/MANIFEST.json from the table below (kept in one place so it stays valid)."""
import json, subprocess

HOOK_COMMITS = subprocess.run(
    ["git", "-C", "/repo", "log", "--format=%H %s", "--grep=^verif hooks"],
    capture_output=True, text=True).stdout.strip().splitlines()

# id -> (level, technique, text, note, design_ref, engine)
SIM = "real anemo Networks on an in-memory datagram fabric under tokio's virtual clock (socket hook)"
CHECKS = {
 "C01": ("exploration",
   "runtime monitor: forged-certificate corpus through the real verifiers + adversary endpoint vs. ground-truth address registry",
   "Verifier level: replayed, re-signed, key-planted (the other party's complete SubjectPublicKeyInfo byte for byte in serial number, a name attribute and an extension), expired, CA, ECDSA, truncated, garbage and every-offset single-byte-mutated certificates through the three real verifiers with handshake signatures by both keys (plus the right key's signature, zeros and nothing under eleven foreign scheme labels and junk under Ed25519, at the TLS 1.3 and 1.2 entry points); oracle: accepted certificate AND accepted signature by key K implies attributed PeerId = pub(K). End to end: an adversary endpoint holding only key Y dials / is dialed by real Networks with ten hostile identities while honest RPCs carry other parties' ids in every encoding; every PeerId attributed in handlers, responses, events and dial results must equal the ground-truth owner of the remote fabric address. One scenario in three re-uses an ip:port for a second honest identity after the first has shut down (ground truth by instant).",
   "Ed25519/TLS1.3 strength assumed; adversary limited to rustls' public traits + DER splicing (no malformed TLS records).",
   "DESIGN.md §4 C01", "E1 simnet + E3 component"),
 "C02": ("exploration",
   "runtime monitor: offline history checker (unique ids) over simulated lossy/reordering/duplicating fabric + real-socket multi-thread stress (thorough: also under AddressSanitizer)",
   "Hundreds to thousands of scenarios with 1-200 concurrent RPCs in both directions, bodies 0 B-4 MB (thorough 16 MB), random header maps/routes/statuses and randomised handler completion order under loss, duplication, reordering and black-outs, plus look-alike request pairs (header maps that differ only in where names end and values begin, swapped values, one-byte differences); the merged call/return/start/finish history is checked for at-most-once, request integrity, response integrity and pairing. The same oracle also judges a real-UDP-socket stress on a 6-worker runtime with connection churn; in the thorough tier the whole check is repeated under an ASan+LSan build (quinn-udp / ring FFI paths).",
   "Body equality on (length, 64-bit hash); QUIC retransmission is exercised, not specified.",
   "DESIGN.md §4 C02", "E1 simnet"),
 "C03": ("exploration",
   "runtime monitor: racing pinned/unpinned dials with handshake-window drop rules vs. ground-truth registry",
   "3-5 Networks plus an impostor replaying the expected peer's certificate; racing dials with right/wrong pins under drop rules on long-header packets, on the first 1-RTT datagrams, or random loss; dials include self-dials (a node's own address, pinned or not); oracle compares returned identity with the owner of the dialed address, checks membership in the caller's connected set during the call from timestamped events, and that parties that only met through a mismatching dial never list, announce or serve each other.",
   "One-hop topologies, no address migration.",
   "DESIGN.md §4 C03", "E1 simnet"),
 "C04": ("exploration",
   "runtime monitor: snapshot+event replay vs. listing after every step; adversary duplicate connections; exhaustive small operation sequences and two-thread linearizability of the peer table; real-socket drain-list-drain stress (thorough: also under AddressSanitizer)",
   "Random histories of dials, disconnects, restarts, partitions, cuts, loss bursts among 3-5 Networks plus an adversary that opens duplicate connections with one identity; after every step each node's synchronously drained subscription must reproduce peers() exactly, events must alternate per peer, and at quiescent points the adversary's un-closed connections to a node are exactly one iff it is listed. Component level (hook on ActivePeers): every add/remove/disconnect sequence up to length 6 (thorough 7) on four connection shapes vs. a reference model, 8 writers + 4 drain-list-drain subscribers, and pairs of operations released on two threads whose combined result must equal one of the two sequential orders. Real-socket level: subscriber threads run drain-list-drain against Network::{subscribe,peers} during connection churn on a 6-worker runtime.",
   "'At every instant' is sampled after every harness step.",
   "DESIGN.md §4 C04", "E1 simnet"),
 "C05": ("exploration",
   "runtime monitor over simulated mutual dials + convergence/agreement oracle",
   "Real mutual dials between two Networks with seeded start offsets (within 3 RTT, or up to 6 s late), asymmetric latency, loss and duplication, either side dialing explicitly or through the background dialer, optionally with a connection limit of 1-2; the oracle checks listings, event sequences, that from the moment both sides have listed each other there is never an instant at which neither does (sampled every virtual millisecond), RPCs in both directions, that both sides kept the same physical connection, a quiet period, and cross-scenario determinism of the survivor. Component level: all 24 registration orders of the four connection objects of a mutual dial (two per side) through the real ActivePeers, plus the pure tie-break function over random identity pairs (antisymmetric, order-independent). Real-socket level: two Networks on UDP loopback and a 4-worker runtime dial each other simultaneously for 150 (thorough 600) rounds per scenario; listings, alternating events, RPCs both ways and a quiet window are judged per round (a wrong listing is a verdict only when unchanged for 5 s).",
   "Interleavings are those the seeded fabric produces (reported as distinct signatures), not an enumeration.",
   "DESIGN.md §4 C05", "E1 simnet"),
 "C06": ("exploration",
   "runtime monitor: hostile stream programmes from an admitted adversary + panic hook + honest-traffic oracle",
   "An admitted adversary endpoint runs seeded programmes of malformed, truncated (swept offset), oversized, bincode-bomb, complete requests with hostile route/header text (1-4 byte UTF-8 swept across byte offsets) abandoned before/while/after the handler runs, reset/stop/abandon, stream-flood, uni-stream, datagram and abrupt-close actions while honest RPCs run in both directions; monitors: process panic hook, abort supervision (child process), livelock diagnosis (CPU-bound scenario thread with the same innermost library frame in 3 gdb samples), is_closed(), C02 oracle and latency bound on honest RPCs, correctness of well-formed probes on fresh streams, and that every handler start attributed to the adversary equals a complete valid request it sent (independent parser).",
   "Only inputs expressible through QUIC streams of an authenticated peer; memory exhaustion not judged.",
   "DESIGN.md §4 C06", "E1 simnet"),
 "C09": ("exploration",
   "runtime monitor: bounded-progress oracle at quiescent points of random fault histories (virtual time)",
   "Random histories (dial, disconnect, restart, partition, one-way cut, loss burst, idle) among 3-5 Networks with idle timeout 2-10 s (or left unspecified: default 30 s) and keep-alive off/short/long; at quiescent points (T_q of fault-free virtual time) A lists B iff B lists A and every listed peer answers an RPC; disconnect() removes at once with LostPeer(Requested) and RPCs fail. One recorded finding (idle-expiry asymmetry) is classified by exact signature.",
   "'Eventually' restated as T_q = idle + keep-alive + 3 latency + 1 s; see known_findings.json.",
   "DESIGN.md §4 C09", "E1 simnet"),
 "C10": ("exploration",
   "runtime monitor vs. executable admission model",
   "One listener (limit None/0/1/2/3/5) and 4-8 dialers with seeded, runtime-edited affinities; every non-overlapping arrival (plain or naming the listener's identity) is compared with admit(affinity, limit, established), whatever the listener's background-dial cap and own pending dials; explicit and background dials by the limited node must ignore its limit; rejected dialers fail within the connect timeout and leave no trace.",
   "Simultaneous arrivals excluded as the property states.",
   "DESIGN.md §4 C10", "E1 simnet"),
 "C11": ("exploration",
   "runtime monitor vs. executable deadline model in exact virtual time",
   "Two Networks (builder setters in a key-derived order) with seeded outbound/inbound defaults, optional user outbound layer (pass-through, or holding each request for 120 ms-1.5 s), RPCs through Network::rpc / Peer::rpc / Peer-as-Service with hostile timeout headers and scripted handler durations; the model C=min?(O,h), S=min?(I,h) decides outcome class, latency to +-3 ms of virtual time and handler lifetime.",
   "Deadlines closer than 50 ms to each other are not judged.",
   "DESIGN.md §4 C11", "E1 simnet"),
 "C12": ("fault_enumeration",
   "runtime monitor: abandonment instant swept on an RTT/8 grid; handler start/finish/drop log + gauges",
   "The abandonment instant is enumerated on a grid across stream open, request transfer, handler running and response transfer (bodies 0 B/100 KB/2 MB), three ways of abandoning, histories of 3x-50x the stream limit; the handler of an abandoned RPC must be dropped within 2 RTT + 50 ms and never finish later, the live-handler gauge returns to 0, a fresh RPC completes within 20x unloaded latency, siblings are intact.",
   "Promptness relative to simulated RTT; 3 s bound under injected loss.",
   "DESIGN.md §4 C12", "E1 simnet"),
 "C13": ("exploration",
   "runtime monitor: dial attempts read off the fabric tap over minutes-hours of virtual time",
   "Class A: all High peers black-holed, never-dial entries present; attempts (first Initial per connection) checked for who/rotation/backoff spacing/in-flight cap/keeps-dialing bounds. Class B: reachable High peers; bounded success, re-dial after loss, recovery after k failures, no dial while connected; explicit application dials are never counted against the background in-flight cap; multi-address peers rotate over their addresses; in both classes the node may hold connections to parties outside its High table (strangers, explicit dials, Allowed entries), which must change nothing. Class A may contain one more High peer whose table entry is edited at run time (removed/demoted, re-inserted): no dial while out, rotation and back-off continue.",
   "Liveness as the bounded-progress bounds of the statement; tick jitter included in bounds.",
   "DESIGN.md §4 C13", "E1 simnet"),
 "C14": ("exploration",
   "runtime monitor vs. name-acceptance model (verifiers + simnet + adversary)",
   "Verifier-level triples (accepted names, certificate name, dialed name) and end-to-end dials among Networks with (primary, alternate) names, an adversarial dialer with every (hello name, certificate name) pair and an adversarial listener (dialed plainly and naming its real identity), all compared with the model; in every scenario one private key serves two name configurations in turn (restart in place, restart elsewhere, second live endpoint) and an adversary admitted by the first returns to the second with its TLS session store.",
   "Case variants and wildcard certificates not judged.",
   "DESIGN.md §4 C14", "E1 simnet + E3 component"),
 "C15": ("exploration",
   "runtime monitor vs. size-limit classification model (codec level + simnet)",
   "Configured limits from 0 to 1 MiB plus values at and beyond 2^32; boundary sweep limit-2..limit+2 on the real frame codec and end-to-end RPCs aiming each of the four frames at an applicable limit on caller/callee/both/neither, plus 8 MiB-boundary and 12/32 MiB RPCs without limits; every error must be confined to the RPC. The 8 MiB cap with no limit configured is a recorded finding.",
   "Header-frame sizes computed by an independent reference encoder.",
   "DESIGN.md §4 C15", "E1 simnet + E3 component"),
 "C07": ("exploration",
   "runtime monitor: independent hand-written wire parser/encoder + golden byte vectors vs. the real codecs",
   "Thousands of seeded requests/responses (bodies up to 2 MB plus sizes at powers of two up to 4 MiB and between 4 and 8 MiB; hostile-text routes) through the real encoders/decoders over in-memory streams (whole, byte-at-a-time, random chunks); an independent parser/encoder of the established layout must consume the produced bytes exactly and agree on every field (byte equality for <=1 header); pinned golden vectors; round trip with empty extensions; every strict prefix rejected; wrong preamble/version/reserved byte/status rejected; mutated and random bytes never panic and are accepted only when the reference parser yields the same value.",
   "Only Version::V1 exists; bincode's free-function configuration is mirrored by the reference parser.",
   "DESIGN.md §4 C07", "E3 component"),
 "C08": ("fault_enumeration",
   "runtime monitor: shutdown/tear-down instant swept (virtual time in simnet; 250 us grid in real-socket sub-processes) + panic hook + hang diagnosis",
   "E1: simulated shutdown (by shutdown() or by dropping the last handle) of a network with a seeded in-flight mix at an instant swept in 100 us/1 ms steps, optionally together with a burst of 100-400 API calls that saturates the connection manager's mailbox; completes within shutdown_idle_timeout + 1 s, then closed/no peers/subscribe errs/weak refs dead/0 live service clones, subscriber gets LostPeer then end-of-stream, pending and later API calls return errors, remote peers drop the network, no panic. E2: sub-process trials on real UDP sockets and a 4-worker runtime; the runtime is dropped (handles alive / dropped first / during shutdown / after shutdown) on a 0-50 ms grid; two thirds of the trials start the delay clock at the first answered RPC, half of the shutdown trials keep a handler inside a non-yielding section in flight; no panic line, exit 0, drop(runtime) returns (a hang is a violation only when gdb shows a spinning connection-manager thread), and when shutdown() returns: address re-bindable at once, closed, no peers, 0 live service clones, no handler of the network still running.",
   "Tear-down instants depend on OS scheduling; two defects found this way were repaired (fix: commits), one is a recorded finding.",
   "DESIGN.md §4 C08", "E1 simnet + E2 realnet sub-process"),
 "C16": ("exploration",
   "runtime monitor vs. reference route matcher and reference layer stacks",
   "Route tables built by seeded programmes of route/add_rpc_service/route_layer/merge; every fourth scenario builds its tables on 6 barrier-released threads before querying them; every built table gets each pattern instantiated, near misses and odd strings; each leaf and layer counts invocations and stamps the response; compared with a reference matcher (static equality, catch-all = prefix + non-empty tail, empty tail don't-care) and reference layer stacks; no call-time panic.",
   ":param segments not generated (not in the stated pattern language).",
   "DESIGN.md §4 C16", "E3 component"),
 "C17": ("exploration",
   "runtime monitor over generated programs: AST cross-check of generator output + compiled driver of generated clients/servers",
   "Generator level: thousands of seeded definitions through anemo_build's generators; method->route maps read off the client and server ASTs must agree and lie under '/'+SERVICE_NAME+'/'. Execution level: batches of 12 generated services compiled by /verif/harness-codegen; every client method is called through Router::add_rpc_service with 8 scripted outcomes and every shape of error Status (code only, message only incl. non-ASCII/5 kB/empty, headers only, both); a request and a typed response that cannot be encoded (serialization fails after the other fields were written), each followed by an ordinary call; handler log, results, statuses (code, message, headers), undecodable payloads and unknown routes are judged.",
   "Only identifier-shaped definitions; Attributes not varied.",
   "DESIGN.md §4 C17", "E4 codegen"),
 "C18": ("exploration",
   "runtime monitor: atomic per-peer gauge inside the wrapped service under a multi-threaded workload + hand-polled admission probes on logical steps",
   "InflightLimitLayer (limit 1..64, both modes) around a gauged service on a 4-worker runtime; first a hand-polled sequential phase (no clock) in which one peer's requests end in every possible way and the next one must be admitted at once; tasks share clones and issue requests that finish, fail or are cancelled at random poll counts; the gauge's fetch_add return value is the observation (<= limit); refused requests never touch it; fresh-peer rounds fire all tasks at a brand-new peer at once; at quiescence gauges are 0 and a hand-polled probe (logical steps, no clock) fills each peer with exactly `limit` never-finishing requests.",
   "Interleavings are those a 4-worker runtime produces.",
   "DESIGN.md §4 C18", "E3 component"),
 "C19": ("exploration",
   "runtime monitor: admission timestamps vs. one-sided GCRA bound (wall clock)",
   "RateLimitLayer (burst 1..20, interval 2..50 ms, both modes) around a service that timestamps admissions; concurrent saturating phase judged by k <= B + floor(((t_k - T_P)*1.001 + 1 ms)/tau); refusals are TooManyRequests with parsable wait-nanos and never reach the service; sequential phase checks 0 < hint <= full refill and that a retry after the hint is admitted; fresh peer - and peers whose identity is one byte apart from an exhausted peer's - get their burst; 400k sequential refusals look for non-positive hints. One defect repaired (zero hint), one recorded (governor admits burst+1 after idle).",
   "Decided against the wall clock; the window is over-estimated so scheduling delays only make the oracle more lenient.",
   "DESIGN.md §4 C19", "E3 component"),
 "C20": ("exploration",
   "runtime monitor: three-way log comparison (authorizer, inner service, caller) under a multi-threaded workload",
   "RequireAuthorizationLayer with a logging wrapper around the real AllowedPeers or a scripted authorizer, ONE layered service whose clones are driven by 2-8 tasks (1-64 clones each) on a 4-worker runtime; per request id: invoked iff accepted, exactly once (also for the 5% of response futures that are dropped unpolled; every eighth scenario stacks two layers of one authorizer type); accepted => inner's response and the inner saw the authorizer's mutation; refused => the authorizer's response byte for byte; allow-list verdict/status vs. reference.",
   "Response equality on (status, sorted headers, body length, 64-bit hash).",
   "DESIGN.md §4 C20", "E3 component"),
}

NOT_YET = {}

def main():
    props = [json.loads(l) for l in open("/verif/properties.jsonl")]
    checks = []
    na = []
    for p in props:
        pid = p["id"]
        if pid in CHECKS:
            level, tech, text, note, ref, engine = CHECKS[pid]
            checks.append({
                "property_id": pid,
                "quick_cmd": f"./check {pid} quick",
                "thorough_cmd": f"./check {pid} thorough",
                "evidence_file": f"/verif/evidence/{pid}.json",
                "replay_cmd_template": "./check " + pid + " quick --replay {path}",
                "engine": engine,
                "level_claimed": {"category": level, "text": text, "design_ref": ref},
                "level_note": note,
                "technique": tech,
            })
        else:
            na.append({"property_id": pid, "reason": NOT_YET.get(pid, "check not built yet in this session (planned: DESIGN.md §4 " + pid + "); not claimed until its monitor runs clean on the unchanged tree")})
    m = {
        "version": 1,
        "setup_cmd": "cd /verif/harness && CARGO_NET_OFFLINE=true cargo build --release --offline && cd /verif/harness-codegen && CARGO_NET_OFFLINE=true cargo build --offline",
        "hooks": {
            "guard": "--cfg bmwill_anemo_verif",
            "enable": "RUSTFLAGS='--cfg bmwill_anemo_verif' (set in /verif/harness/.cargo/config.toml; the harness path-depends on /repo/crates/*)",
            "baseline_off_cmd": "cd /repo && cargo nextest run --workspace --no-fail-fast --offline --test-threads 8 || cargo test --workspace --no-fail-fast --offline",
            "source_commits": [l.split()[0] for l in HOOK_COMMITS],
            "add_only": True,
        },
        "engines": [
            {"name": "E1 simnet", "path": "/verif/harness/src/{fabric,world,adversary}.rs", "kind_free_text": "real anemo Networks (+ raw hostile quinn/rustls endpoints) on an in-memory datagram fabric under tokio's paused clock; monitors at the API boundary", "serves_properties": ["C01","C02","C03","C04","C05","C06","C09","C10","C11","C12","C13","C14","C15"]},
            {"name": "E2 realnet sub-process", "path": "/verif/harness/src/props/c08_trial.rs", "kind_free_text": "real Networks on UDP loopback and a multi-threaded runtime, each trial in a sub-process with panic hook and watchdog", "serves_properties": ["C08"]},
            {"name": "E4 codegen", "path": "/verif/harness-codegen", "kind_free_text": "build.rs runs anemo-build on seeded definitions; generated clients/servers are compiled and driven", "serves_properties": ["C17"]},
            {"name": "E3 component", "path": "/verif/harness/src/props", "kind_free_text": "single components behind cfg-guarded wrappers or public API, with reference models in /verif/harness/src/refmodel"},
        ],
        "checks": checks,
        "not_applicable": na,
        "notes": "Technique family: runtime monitoring and sanitizers. exit 0 held / 1 VIOLATION / 2 harness error (never a verdict). See DESIGN.md.",
    }
    json.dump(m, open("/verif/MANIFEST.json", "w"), indent=1)
    print("checks:", len(checks), "not_applicable:", len(na))

if __name__ == "__main__":
    main()
