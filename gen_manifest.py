#!/usr/bin/env python3
"""Generates /verif/MANIFEST.json from the table below (kept in one place so it stays valid)."""
import json, subprocess

HOOK_COMMITS = subprocess.run(
    ["git", "-C", "/repo", "log", "--format=%H %s", "--grep=^verif hooks"],
    capture_output=True, text=True).stdout.strip().splitlines()

# id -> (level, technique, text, note, design_ref, engine)
CHECKS = {
 "C05": ("exploration",
         "runtime monitor over simulated mutual dials (virtual-time QUIC fabric) + convergence/agreement oracle",
         "Thousands of real mutual dials between two real Networks on an in-memory datagram fabric under tokio's virtual clock, with seeded start offsets, asymmetric latency, loss and duplication; the oracle checks listings, event sequences, RPCs in both directions, that both sides kept the same physical connection, a quiet period, and cross-scenario determinism of the survivor.",
         "Interleavings are those the seeded fabric produces (reported as distinct signatures), not an enumeration; QUIC/TLS internals trusted.",
         "DESIGN.md §4 C05", "E1 simnet"),
}

NOT_YET = {}

def main():
    props = [json.loads(l) for l in open("/verif/properties.jsonl")]
    checks = []
    na = []
    for p in props:
        pid = p["id"]
        if pid in CHECKS:
            level, tech, text, note, ref, engine = CHECKS[pid]
            checks.append({
                "property_id": pid,
                "quick_cmd": f"./check {pid} quick",
                "thorough_cmd": f"./check {pid} thorough",
                "evidence_file": f"/verif/evidence/{pid}.json",
                "replay_cmd_template": "./check " + pid + " quick --replay {path}",
                "engine": engine,
                "level_claimed": {"category": level, "text": text, "design_ref": ref},
                "level_note": note,
                "technique": tech,
            })
        else:
            na.append({"property_id": pid, "reason": NOT_YET.get(pid, "check not built yet in this session (planned: DESIGN.md §4 " + pid + "); not claimed until its monitor runs clean on the unchanged tree")})
    m = {
        "version": 1,
        "setup_cmd": "cd /verif/harness && CARGO_NET_OFFLINE=true cargo build --release --offline",
        "hooks": {
            "guard": "--cfg bmwill_anemo_verif",
            "enable": "RUSTFLAGS='--cfg bmwill_anemo_verif' (set in /verif/harness/.cargo/config.toml; the harness path-depends on /repo/crates/*)",
            "baseline_off_cmd": "cd /repo && cargo nextest run --workspace --no-fail-fast --offline --test-threads 8 || cargo test --workspace --no-fail-fast --offline",
            "source_commits": [l.split()[0] for l in HOOK_COMMITS],
            "add_only": True,
        },
        "engines": [
            {"name": "E1 simnet", "path": "/verif/harness/src/{fabric,world}.rs", "kind_free_text": "real anemo Networks on an in-memory datagram fabric under tokio's paused clock; monitors at the API boundary"},
        ],
        "checks": checks,
        "not_applicable": na,
        "notes": "Technique family: runtime monitoring and sanitizers. exit 0 held / 1 VIOLATION / 2 harness error (never a verdict). See DESIGN.md.",
    }
    json.dump(m, open("/verif/MANIFEST.json", "w"), indent=1)
    print("checks:", len(checks), "not_applicable:", len(na))

if __name__ == "__main__":
    main()
